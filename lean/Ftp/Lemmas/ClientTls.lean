import Ftp.Model.ClientTls
import Ftp.Lemmas.ReaderTotal
/-
  Trace reasoning for the client model (`Ftp.Client`) and its TLS layer (`Ftp.ClientTls`), used by C11 / C18.

  `SatP m b Q` / `SatT m w Q`: running `m` appends some events `evs` to the trace, and `Q result world' evs` holds.
  `AllP p m`: every event `m` appends satisfies `p` (whatever the start world).
-/
namespace Ftp.ClientTls.L
open Ftp Ftp.Client Ftp.ClientTls Ftp.Endpoint

/-! ## plain layer -/

def SatP {α} (m : M α) (b : World) (Q : Res α → World → List Ev → Prop) : Prop :=
  ∃ evs, (m b).2.trace = b.trace ++ evs ∧ Q (m b).1 (m b).2 evs

theorem SatP.mono {α} {m : M α} {b : World} {Q Q' : Res α → World → List Ev → Prop}
    (h : SatP m b Q) (hq : ∀ r b' e, Q r b' e → Q' r b' e) : SatP m b Q' := by
  obtain ⟨evs, h1, h2⟩ := h
  exact ⟨evs, h1, hq _ _ _ h2⟩

theorem SatP.and {α} {m : M α} {b : World} {Q Q' : Res α → World → List Ev → Prop}
    (h : SatP m b Q) (h' : SatP m b Q') : SatP m b (fun r b' e => Q r b' e ∧ Q' r b' e) := by
  obtain ⟨evs, h1, h2⟩ := h
  obtain ⟨evs', h1', h2'⟩ := h'
  have : evs' = evs := by
    have := h1.symm.trans h1'
    exact (List.append_cancel_left this).symm
  subst this
  exact ⟨evs', h1, h2, h2'⟩

theorem bindP_eq {α β} (m : M α) (f : α → M β) (b : World) :
    (m >>= f) b = match m b with
      | (.ok a, w') => f a w'
      | (.throw, w') => (.throw, w') := rfl

theorem SatP.pure {α} {a : α} {b : World} {Q : Res α → World → List Ev → Prop}
    (h : Q (.ok a) b []) : SatP (pure a : M α) b Q := ⟨[], by simp [Pure.pure], h⟩

theorem SatP.bind {α β} {m : M α} {f : α → M β} {b : World} {Q : Res β → World → List Ev → Prop}
    (h : SatP m b (fun r b1 e1 => match r with
      | .ok a => SatP (f a) b1 (fun r' b2 e2 => Q r' b2 (e1 ++ e2))
      | .throw => Q .throw b1 e1)) : SatP (m >>= f) b Q := by
  obtain ⟨e1, h1, h2⟩ := h
  rw [SatP, bindP_eq]
  rcases hm : m b with ⟨r, b1⟩
  rw [hm] at h1 h2
  cases r with
  | throw => exact ⟨e1, h1, h2⟩
  | ok a =>
    obtain ⟨e2, h3, h4⟩ := h2
    refine ⟨e1 ++ e2, ?_, h4⟩
    show ((f a b1).2).trace = _
    rw [h3]
    simp only at h1
    rw [h1, List.append_assoc]

theorem SatP.throwE {α} {b : World} {Q : Res α → World → List Ev → Prop}
    (h : Q .throw b []) : SatP (throwE : M α) b Q := ⟨[], by simp [Client.throwE], h⟩

theorem SatP.getW {b : World} {Q : Res World → World → List Ev → Prop}
    (h : Q (.ok b) b []) : SatP getW b Q := ⟨[], by simp [Client.getW], h⟩

theorem SatP.modifyW {f : World → World} {b : World} {Q : Res Unit → World → List Ev → Prop}
    (hf : (f b).trace = b.trace) (h : Q (.ok ()) (f b) []) : SatP (modifyW f) b Q :=
  ⟨[], by simp [Client.modifyW, hf], h⟩

theorem SatP.emit {e : Ev} {b : World} {Q : Res Unit → World → List Ev → Prop}
    (h : Q (.ok ()) { b with trace := b.trace ++ [e] } [e]) : SatP (emit e) b Q :=
  ⟨[e], by simp [Client.emit, Client.modifyW], h⟩

theorem SatP.forObservers {f : Nat → Ev} {b : World} {Q : Res Unit → World → List Ev → Prop}
    (h : Q (.ok ()) { b with trace := b.trace ++ b.observers.map f } (b.observers.map f)) :
    SatP (forObservers f) b Q :=
  ⟨b.observers.map f, by simp [Client.forObservers, Client.modifyW, Client.getW, bindP_eq], h⟩

/-- every event appended by `m` satisfies `p` -/
def AllP {α} (p : Ev → Prop) (m : M α) : Prop := ∀ b, SatP m b (fun _ _ evs => ∀ e ∈ evs, p e)

theorem allP_mono {α} {p q : Ev → Prop} {m : M α} (h : AllP p m) (hpq : ∀ e, p e → q e) : AllP q m :=
  fun b => (h b).mono fun _ _ _ he e hm => hpq e (he e hm)

theorem allP_pure {α} {p : Ev → Prop} (a : α) : AllP p (pure a : M α) :=
  fun _ => SatP.pure (by simp)

theorem allP_throwE {α} {p : Ev → Prop} : AllP p (throwE : M α) :=
  fun _ => SatP.throwE (by simp)

theorem allP_getW {p : Ev → Prop} : AllP p getW :=
  fun _ => SatP.getW (by simp)

theorem allP_modifyW {p : Ev → Prop} {f : World → World} (hf : ∀ b, (f b).trace = b.trace) : AllP p (modifyW f) :=
  fun b => SatP.modifyW (hf b) (by simp)

theorem allP_emit {p : Ev → Prop} {e : Ev} (h : p e) : AllP p (emit e) :=
  fun _ => SatP.emit (by simpa using h)

theorem allP_forObservers {p : Ev → Prop} {f : Nat → Ev} (h : ∀ o, p (f o)) : AllP p (forObservers f) :=
  fun _ => SatP.forObservers (by
    intro e he
    obtain ⟨o, _, rfl⟩ := List.mem_map.1 he
    exact h o)

theorem allP_bind {α β} {p : Ev → Prop} {m : M α} {f : α → M β} (h1 : AllP p m) (h2 : ∀ a, AllP p (f a)) :
    AllP p (m >>= f) := by
  intro b
  apply SatP.bind
  apply (h1 b).mono
  intro r b1 e1 he1
  cases r with
  | throw => exact he1
  | ok a =>
    apply (h2 a b1).mono
    intro _ _ e2 he2 e he
    rcases List.mem_append.1 he with h | h
    · exact he1 e h
    · exact he2 e h

theorem allP_withScope {α} {p : Ev → Prop} {body : M α} {cleanup : M Unit} (h1 : AllP p body) (h2 : AllP p cleanup) :
    AllP p (withScope body cleanup) := by
  intro b
  obtain ⟨e1, t1, q1⟩ := h1 b
  obtain ⟨e2, t2, q2⟩ := h2 (body b).2
  refine ⟨e1 ++ e2, ?_, ?_⟩
  · unfold withScope
    rcases hb : body b with ⟨r, b1⟩
    rw [hb] at t1 t2
    simp only at t1 t2
    cases r with
    | throw => simp only; rw [t2, t1, List.append_assoc]
    | ok a =>
      simp only
      rcases hc : cleanup b1 with ⟨rc, b2⟩
      rw [hc] at t2
      simp only at t2
      cases rc <;> simp only <;> rw [t2, t1, List.append_assoc]
  · intro e he
    rcases List.mem_append.1 he with h | h
    · exact q1 e h
    · exact q2 e h

/-- one step of the structural proof that a program only appends events satisfying `p` -/
macro "allp_step" : tactic => `(tactic| first
  | exact allP_pure _
  | exact allP_throwE
  | exact allP_getW
  | assumption
  | (apply allP_emit; first | trivial | rfl | exact rfl | simp)
  | (apply allP_modifyW; intro _; rfl)
  | (apply allP_forObservers; intro _; first | trivial | rfl | exact rfl | simp)
  | (refine allP_bind ?_ (fun _ => ?_))
  | split
  | dsimp only)

syntax "allp" ("[" term,* "]")? : tactic
macro_rules
  | `(tactic| allp) => `(tactic| repeat allp_step)
  | `(tactic| allp [$ts,*]) => do
    let alts ← ts.getElems.mapM fun t => `(tactic| with_reducible apply $t)
    `(tactic| repeat (first $[| $alts:tactic]* | allp_step))

/-! ### event classes -/

def payload : Ev → Bool
  | .dataRead _ _ | .dataWrite _ _ | .sinkWrite _ | .srcRead _ _ => true
  | _ => false

def isWrite : Ev → Bool
  | .ctlWrite _ => true
  | _ => false

/-- events that are not looked at when asking what preceded the data handshake -/
def keep : Ev → Bool
  | .obsReply _ _ _ | .dataAccept _ _ => false
  | _ => true

def writes (evs : List Ev) : List Bytes := evs.filterMap fun | .ctlWrite b => some b | _ => none

/-- not a payload event -/
def NP (e : Ev) : Prop := payload e = false
/-- neither a payload event nor a command write -/
def NPW (e : Ev) : Prop := payload e = false ∧ isWrite e = false
/-- dropped by `keep`, not a payload event -/
def NK (e : Ev) : Prop := keep e = false ∧ payload e = false

theorem writes_append (a b : List Ev) : writes (a ++ b) = writes a ++ writes b := by
  simp [writes, List.filterMap_append]

theorem writes_nil_of_all {evs : List Ev} (h : ∀ e ∈ evs, isWrite e = false) : writes evs = [] := by
  induction evs with
  | nil => rfl
  | cons e t ih =>
    have he := h e (by simp)
    have ht := ih (fun x hx => h x (by simp [hx]))
    cases e <;> simp_all [writes, isWrite]

/-! ### control channel -/

theorem ctlSend_np (cmd : Bytes) : AllP NP (ctlSend cmd) := by
  unfold ctlSend; allp

theorem ctlClose_np : AllP NPW ctlClose := by
  unfold ctlClose; allp

theorem ctlRecv_npw : AllP NPW ctlRecv := by
  unfold ctlRecv ctlClose; allp

theorem recvInto_npw (rs : Replies) : AllP NPW (recvInto rs) := by
  unfold recvInto; allp [ctlRecv_npw]

theorem npw_np {α} {m : M α} (h : AllP NPW m) : AllP NP m := allP_mono h fun _ he => he.1

theorem mkCmd_eq (verb : String) (arg : Option Bytes) (b : World) :
    mkCmd verb arg b = ((match makeCommand (str verb) arg with | some c => Res.ok c | none => Res.throw), b) := by
  unfold mkCmd
  cases makeCommand (str verb) arg <;> rfl

/-- does the lifted program turn into a throw (the TLS shutdown of the 421 branch failed)? -/
def closeF (w : WorldT) (b : World) : Bool :=
  w.ctlSsl && w.base.connected && !b.connected && !w.peerAnswersCloseNotify

/-- the first command write of a plain run (which appended `evs`) in a session whose handshake failed -/
def brk (w : WorldT) (evs : List Ev) : Option (List Ev × Bytes) :=
  if w.broken then splitAtFirstCtlWrite evs else none

theorem split_some : ∀ {l : List Ev} {pre : List Ev} {c : Bytes}, splitAtFirstCtlWrite l = some (pre, c) →
    writes pre = [] ∧ ∃ post, l = pre ++ Ev.ctlWrite c :: post := by
  intro l
  induction l with
  | nil => intro pre c h; simp [splitAtFirstCtlWrite] at h
  | cons e t ih =>
    intro pre c h
    by_cases he : ∃ x, e = Ev.ctlWrite x
    · obtain ⟨x, rfl⟩ := he
      simp only [splitAtFirstCtlWrite, Option.some.injEq, Prod.mk.injEq] at h
      obtain ⟨rfl, rfl⟩ := h
      exact ⟨rfl, t, rfl⟩
    · have hs : splitAtFirstCtlWrite (e :: t) =
          (match splitAtFirstCtlWrite t with | some (pre, b) => some (e :: pre, b) | none => none) := by
        cases e <;> first | rfl | exact absurd ⟨_, rfl⟩ he
      rw [hs] at h
      cases ht : splitAtFirstCtlWrite t with
      | none => rw [ht] at h; cases h
      | some x =>
        obtain ⟨pre', c'⟩ := x
        rw [ht] at h
        simp only [Option.some.injEq, Prod.mk.injEq] at h
        obtain ⟨rfl, rfl⟩ := h
        obtain ⟨h1, post, h2⟩ := ih ht
        refine ⟨?_, post, by rw [h2]; rfl⟩
        have : writes (e :: pre') = writes [e] ++ writes pre' := writes_append [e] pre'
        rw [this, h1, List.append_nil]
        cases e <;> first | rfl | exact absurd ⟨_, rfl⟩ he

theorem split_none_iff : ∀ {l : List Ev}, splitAtFirstCtlWrite l = none ↔ writes l = [] := by
  intro l
  induction l with
  | nil => exact ⟨fun _ => rfl, fun _ => rfl⟩
  | cons e t ih =>
    by_cases he : ∃ x, e = Ev.ctlWrite x
    · obtain ⟨x, rfl⟩ := he
      simp [splitAtFirstCtlWrite, writes]
    · have hs : splitAtFirstCtlWrite (e :: t) =
          (match splitAtFirstCtlWrite t with | some (pre, b) => some (e :: pre, b) | none => none) := by
        cases e <;> first | rfl | exact absurd ⟨_, rfl⟩ he
      have hw : writes (e :: t) = writes t := by
        cases e <;> first | rfl | exact absurd ⟨_, rfl⟩ he
      rw [hs, hw, ← ih]
      cases splitAtFirstCtlWrite t with
      | none => simp
      | some x => simp

theorem brk_none_of_writes {w : WorldT} {evs : List Ev} (h : writes evs = []) : brk w evs = none := by
  unfold brk
  split
  · exact split_none_iff.2 h
  · rfl

theorem brk_none_of_ok {w : WorldT} (h : w.broken = false) (evs : List Ev) : brk w evs = none := by
  unfold brk; rw [h]; rfl

theorem brk_some {w : WorldT} {evs pre : List Ev} {c : Bytes} (h : brk w evs = some (pre, c)) :
    w.broken = true ∧ writes pre = [] ∧ ∃ post, evs = pre ++ Ev.ctlWrite c :: post := by
  unfold brk at h
  split at h
  · rename_i hb; exact ⟨hb, split_some h⟩
  · cases h

theorem brk_none_writes {w : WorldT} {evs : List Ev} (hb : w.broken = true) (h : brk w evs = none) : writes evs = [] := by
  unfold brk at h
  rw [if_pos hb] at h
  exact split_none_iff.1 h

theorem lift_eq {α} (m : M α) (w : WorldT) :
    lift m w =
      match brk w (m { w.base with trace := [] }).2.trace with
      | some (pre, cmd) =>
        (Res.throw, { w with trace := w.trace ++ (pre ++ [Ev.ctlWriteFail cmd]).map (EvT.ev w.ctlTls) })
      | none =>
      ((if closeF w (m { w.base with trace := [] }).2 then Res.throw else (m { w.base with trace := [] }).1),
       { w with base := { (m { w.base with trace := [] }).2 with trace := w.base.trace },
                trace := w.trace ++
                  (if closeF w (m { w.base with trace := [] }).2 then uptoClose (m { w.base with trace := [] }).2.trace
                   else (m { w.base with trace := [] }).2.trace).map (EvT.ev w.ctlTls) }) := by
  unfold lift closeF brk
  rcases m { w.base with trace := [] } with ⟨r, b⟩
  dsimp only
  cases (if w.broken = true then splitAtFirstCtlWrite b.trace else none) with
  | some x => rfl
  | none => dsimp only; split <;> rfl

/-- with a completed handshake, or without an SSL layer, `lift` is what it was before the broken-session branch -/
theorem lift_eq_of_not_broken {α} (m : M α) (w : WorldT) (h : w.ctlTls = true ∨ w.ctlSsl = false) :
    lift m w =
      ((if closeF w (m { w.base with trace := [] }).2 then Res.throw else (m { w.base with trace := [] }).1),
       { w with base := { (m { w.base with trace := [] }).2 with trace := w.base.trace },
                trace := w.trace ++
                  (if closeF w (m { w.base with trace := [] }).2 then uptoClose (m { w.base with trace := [] }).2.trace
                   else (m { w.base with trace := [] }).2.trace).map (EvT.ev w.ctlTls) }) := by
  have hb : w.broken = false := by
    unfold WorldT.broken
    rcases h with h | h <;> simp [h]
  rw [lift_eq, brk_none_of_ok hb]

theorem uptoClose_prefix (l : List Ev) : ∃ t, l = uptoClose l ++ t := by
  induction l with
  | nil => exact ⟨[], rfl⟩
  | cons e r ih =>
    unfold uptoClose
    split
    · exact ⟨r, rfl⟩
    · obtain ⟨t, ht⟩ := ih
      exact ⟨t, by rw [List.cons_append, ← ht]⟩

theorem mem_uptoClose {l : List Ev} {e : Ev} (h : e ∈ uptoClose l) : e ∈ l := by
  obtain ⟨t, ht⟩ := uptoClose_prefix l
  rw [ht]
  exact List.mem_append_left _ h

theorem lift_mkCmd (verb : String) (arg : Option Bytes) (w : WorldT) :
    lift (mkCmd verb arg) w = ((match makeCommand (str verb) arg with | some c => Res.ok c | none => Res.throw), w) := by
  rw [lift_eq, mkCmd_eq]
  have hc : closeF w { w.base with trace := [] } = false := by
    unfold closeF
    cases w.ctlSsl <;> cases w.base.connected <;> cases w.peerAnswersCloseNotify <;> rfl
  have hb : brk w [] = none := brk_none_of_writes rfl
  simp only [hb, hc, Bool.false_eq_true, if_false, List.map_nil, List.append_nil]

theorem mkCmd_all {p : Ev → Prop} (verb : String) (arg : Option Bytes) : AllP p (mkCmd verb arg) := by
  unfold mkCmd; allp

theorem processCommandInto_np (cmd : Bytes) (rs : Replies) : AllP NP (processCommandInto cmd rs) := by
  unfold processCommandInto; allp [ctlSend_np cmd, npw_np (recvInto_npw rs)]

theorem processCommand_np (cmd : Bytes) : AllP NP (processCommand cmd) := by
  unfold processCommand; allp [ctlSend_np cmd, npw_np ctlRecv_npw]

theorem simple_np (verb : String) (arg : Option Bytes) : AllP NP (simple verb arg) := by
  unfold simple; allp [@mkCmd_all NP verb arg, processCommand_np]

/-! ### data connection set-up and tear-down -/

theorem dataConnect_np (addr : Bytes) (port : Nat) : AllP NP (dataConnect addr port) := by
  unfold dataConnect newDescriptor closeD; allp

theorem dataListen_np : AllP NP dataListen := by
  unfold dataListen newDescriptor; allp

theorem dataAccept_nk : AllP NK dataAccept := by
  unfold dataAccept; allp

theorem dataDisconnect_np (g : Bool) : AllP NP (dataDisconnect g) := by
  unfold dataDisconnect closeD; allp

theorem destroyConn_np : AllP NP destroyConn := by
  unfold destroyConn closeD; allp

/-! ### transfer loops: only that they append -/

def Any (_ : Ev) : Prop := True

theorem poll_any : AllP Any poll := by
  unfold poll; allp

theorem sinkWrite_any (bs : Bytes) : AllP Any (sinkWrite bs) := by
  unfold sinkWrite; allp

theorem streamWrite_any (t : TType) (prev : Bool) (block : Bytes) : AllP Any (streamWrite t prev block) := by
  unfold streamWrite; allp [sinkWrite_any]

theorem streamFlush_any (t : TType) (prev : Bool) : AllP Any (streamFlush t prev) := by
  unfold streamFlush sinkFlush; allp [sinkWrite_any]

theorem recvLoop_any (cb : Bool) (t : TType) (d : Nat) :
    ∀ (fuel : Nat) (payload : Bytes) (prev : Bool), AllP Any (recvLoop cb t d fuel payload prev) := by
  intro fuel
  induction fuel with
  | zero => intro _ _; unfold recvLoop; allp
  | succ n ih =>
    intro pl prev
    unfold recvLoop; allp [streamWrite_any, poll_any, ih]

theorem dataRecv_any (cb : Bool) (t : TType) : AllP Any (dataRecv cb t) := by
  unfold dataRecv; allp [recvLoop_any, streamFlush_any, poll_any]

theorem srcRead_any (n : Nat) : AllP Any (srcRead n) := by
  unfold srcRead; allp

theorem dataWrite_any (d : Nat) (block : Bytes) : AllP Any (Client.dataWrite d block) := by
  unfold Client.dataWrite; allp

theorem sendLoopBin_any (cb : Bool) (d : Nat) : ∀ fuel : Nat, AllP Any (sendLoopBin cb d fuel) := by
  intro fuel
  induction fuel with
  | zero => unfold sendLoopBin; allp
  | succ n ih =>
    unfold sendLoopBin; allp [srcRead_any, dataWrite_any, poll_any, ih]

theorem sendLoopAscii_any (cb : Bool) (d : Nat) : ∀ (fuel : Nat) (st : Ascii.IState), AllP Any (sendLoopAscii cb d fuel st) := by
  intro fuel
  induction fuel with
  | zero => intro _; unfold sendLoopAscii; allp
  | succ n ih =>
    intro st
    unfold sendLoopAscii; allp [dataWrite_any, poll_any, ih]

theorem dataSend_any (cb : Bool) (t : TType) : AllP Any (dataSend cb t) := by
  unfold dataSend; allp [sendLoopBin_any, sendLoopAscii_any, poll_any]

/-! ### reply codes produced by the reader -/

theorem parseStatus_le (l : Bytes) (c : Nat) (h : Reader.parseStatus l = some c) : c ≤ 999 := by
  unfold Reader.parseStatus at h
  split at h
  · simp at h
  · rename_i hl
    rw [parseU16_spec] at h
    split at h
    · rename_i hd
      obtain ⟨hd, _⟩ := hd
      injection h with h
      subst h
      match l, hl with
      | a :: b :: c :: t, _ =>
        simp only [List.take_succ_cons, List.take_zero] at hd ⊢
        simp only [isDigits, isDigit, List.isEmpty_cons, Bool.not_false, List.all_cons, List.all_nil, Bool.and_true,
          Bool.true_and, Bool.and_eq_true, decide_eq_true_eq] at hd
        simp only [decValue, List.foldl_cons, List.foldl_nil]
        unfold Byte at hd
        omega
      | [], hl => simp at hl
      | [_], hl => simp at hl
      | [_, _], hl => simp at hl
    · simp at h

theorem recv_code_le (c : Reader.Ctl) (net : Reader.Net) (code : Nat) (text : Bytes) (c' : Reader.Ctl) (net' : Reader.Net)
    (h : Reader.recv c net = (.reply code text, c', net')) : code ≤ 999 := by
  have tail : ∀ l buf1 net1, Reader.recvTail c l buf1 net1 = (.reply code text, c', net') → code ≤ 999 := by
    intro l buf1 net1 ht
    unfold Reader.recvTail at ht
    split at ht
    · simp at ht
    · rename_i code' hp
      have hle := parseStatus_le l code' hp
      unfold Reader.recvFin at ht
      split at ht
      · injection ht with h1 _
        injection h1 with h1 _
        omega
      · simp at ht
      · simp at ht
  have first : ∀ f, Reader.recvFirst c f = (.reply code text, c', net') → code ≤ 999 := by
    intro f hf
    unfold Reader.recvFirst at hf
    split at hf
    · exact tail _ _ _ hf
    · simp at hf
    · simp at hf
  rw [Reader.recv_eq] at h
  split at h
  · exact first _ h
  · simp at h
  · simp at h

/-! ### precise shape of one command / reply exchange -/

theorem ctlSend_spec (cmd : Bytes) (b : World) :
    SatP (ctlSend cmd) b (fun r _ evs => (∀ e ∈ evs, NP e ∧ keep e = true) ∧
      match r with
      | .ok _ => writes evs = [cmd ++ CRLF]
      | .throw => writes evs = []) := by
  unfold ctlSend
  apply SatP.bind; apply SatP.forObservers; dsimp only
  apply SatP.bind; apply SatP.getW; dsimp only
  have hobs : ∀ e ∈ b.observers.map (fun o => Ev.obsRequest o cmd), NP e ∧ keep e = true := by
    intro e he
    obtain ⟨o, _, rfl⟩ := List.mem_map.1 he
    exact ⟨rfl, rfl⟩
  have hw : writes (b.observers.map (fun o => Ev.obsRequest o cmd)) = [] := by
    apply writes_nil_of_all
    intro e he
    obtain ⟨o, _, rfl⟩ := List.mem_map.1 he
    rfl
  split
  · apply SatP.bind; apply SatP.emit; dsimp only
    apply SatP.throwE
    refine ⟨?_, ?_⟩
    · intro e he
      have he : e ∈ b.observers.map (fun o => Ev.obsRequest o cmd) ∨ e = Ev.ctlWriteFail (cmd ++ CRLF) := by simpa using he
      rcases he with he | rfl
      · exact hobs e he
      · exact ⟨rfl, rfl⟩
    · simp only [writes_append, hw]; simp [writes]
  · apply SatP.bind; apply SatP.emit; dsimp only
    apply SatP.modifyW rfl
    refine ⟨?_, ?_⟩
    · intro e he
      have he : e ∈ b.observers.map (fun o => Ev.obsRequest o cmd) ∨ e = Ev.ctlWrite (cmd ++ CRLF) := by simpa using he
      rcases he with he | rfl
      · exact hobs e he
      · exact ⟨rfl, rfl⟩
    · simp only [writes_append, hw]; simp [writes]

theorem ctlRecv_spec (b : World) :
    SatP ctlRecv b (fun r _ evs => (∀ e ∈ evs, NPW e) ∧
      match r with
      | .ok rep => rep.code ≤ 999 ∧
          (rep.code ≠ 421 → ∃ pre, evs.filter keep = pre ++ [Ev.ctlReply rep.code rep.text])
      | .throw => True) := by
  apply ((ctlRecv_npw b).and ?_).mono (fun r b' e h => h)
  unfold ctlRecv
  apply SatP.bind; apply SatP.getW; dsimp only
  apply SatP.bind; apply SatP.emit; dsimp only
  split
  · apply SatP.throwE; trivial
  · rcases hr : Reader.recv { b.ctl with closed := false } b.net with ⟨r, c', net'⟩
    dsimp only
    apply SatP.bind; apply SatP.modifyW rfl; dsimp only
    cases r with
    | reply code text =>
      have hc := recv_code_le _ _ _ _ _ _ hr
      dsimp only
      apply SatP.bind; apply SatP.emit; dsimp only
      have hobs : ∀ os : List Nat, (os.map (fun o => Ev.obsReply o code text)).filter keep = [] := by
        intro os
        apply List.filter_eq_nil_iff.2
        intro e he
        obtain ⟨o, _, rfl⟩ := List.mem_map.1 he
        simp [keep]
      split
      · unfold ctlClose
        apply SatP.bind
        apply SatP.bind; apply SatP.emit; dsimp only
        apply SatP.bind; apply SatP.emit; dsimp only
        apply SatP.modifyW rfl; dsimp only
        apply SatP.bind; apply SatP.forObservers; dsimp only
        apply SatP.pure
        refine ⟨hc, fun hne => ?_⟩
        simp_all
      · apply SatP.bind; apply SatP.forObservers; dsimp only
        apply SatP.pure
        refine ⟨hc, fun _ => ⟨[Ev.ctlReadLine], ?_⟩⟩
        simp [hobs, keep, List.filter_cons]
    | error => dsimp only; apply SatP.throwE; trivial
    | fuel => dsimp only; apply SatP.throwE; trivial

/-- what one command / reply exchange appends -/
def PciPost (cmd : Bytes) (r : Res (Reply × Replies)) (evs : List Ev) : Prop :=
  (∀ e ∈ evs, NP e) ∧
  match r with
  | .ok (rep, _) => writes evs = [cmd ++ CRLF] ∧ rep.code ≤ 999 ∧
      (rep.code ≠ 421 → ∃ pre, evs.filter keep = pre ++ [Ev.ctlReply rep.code rep.text])
  | .throw => writes evs = [] ∨ writes evs = [cmd ++ CRLF]

theorem processCommandInto_spec (cmd : Bytes) (rs : Replies) (b : World) :
    SatP (processCommandInto cmd rs) b (fun r _ evs => PciPost cmd r evs) := by
  unfold processCommandInto recvInto
  apply SatP.bind
  apply (ctlSend_spec cmd b).mono
  intro r b1 e1 ⟨ha1, hw1⟩
  cases r with
  | throw =>
    exact ⟨fun e he => (ha1 e he).1, Or.inl hw1⟩
  | ok u =>
    dsimp only at hw1 ⊢
    apply SatP.bind
    apply (ctlRecv_spec b1).mono
    intro r b2 e2 ⟨ha2, h2⟩
    have hnp : ∀ e ∈ e1 ++ e2, NP e := by
      intro e he
      rcases List.mem_append.1 he with h | h
      · exact (ha1 e h).1
      · exact (ha2 e h).1
    have hw : writes (e1 ++ e2) = [cmd ++ CRLF] := by
      rw [writes_append, hw1, writes_nil_of_all (fun e he => (ha2 e he).2)]; rfl
    cases r with
    | throw => exact ⟨hnp, Or.inr hw⟩
    | ok rep =>
      dsimp only at h2 ⊢
      apply SatP.pure
      rw [List.append_nil]
      refine ⟨hnp, hw, h2.1, fun hne => ?_⟩
      obtain ⟨pre, hpre⟩ := h2.2 hne
      exact ⟨e1.filter keep ++ pre, by rw [List.filter_append, hpre, List.append_assoc]⟩

/-! ## TLS layer -/

def SatT {α} (m : MT α) (w : WorldT) (Q : Res α → WorldT → List EvT → Prop) : Prop :=
  ∃ evs, (m w).2.trace = w.trace ++ evs ∧ Q (m w).1 (m w).2 evs

/-- what `SatT` says about the appended part of the trace -/
theorem SatT.added {α} {m : MT α} {w : WorldT} {Q : Res α → WorldT → List EvT → Prop} (h : SatT m w Q) :
    Q (m w).1 (m w).2 ((m w).2.trace.drop w.trace.length) := by
  obtain ⟨evs, h1, h2⟩ := h
  rw [h1, List.drop_left]
  exact h2

theorem SatT.mono {α} {m : MT α} {w : WorldT} {Q Q' : Res α → WorldT → List EvT → Prop}
    (h : SatT m w Q) (hq : ∀ r w' e, Q r w' e → Q' r w' e) : SatT m w Q' := by
  obtain ⟨evs, h1, h2⟩ := h
  exact ⟨evs, h1, hq _ _ _ h2⟩

theorem SatT.and {α} {m : MT α} {w : WorldT} {Q Q' : Res α → WorldT → List EvT → Prop}
    (h : SatT m w Q) (h' : SatT m w Q') : SatT m w (fun r w' e => Q r w' e ∧ Q' r w' e) := by
  obtain ⟨evs, h1, h2⟩ := h
  obtain ⟨evs', h1', h2'⟩ := h'
  have : evs' = evs := by
    have := h1.symm.trans h1'
    exact (List.append_cancel_left this).symm
  subst this
  exact ⟨evs', h1, h2, h2'⟩

theorem bindT_eq {α β} (m : MT α) (f : α → MT β) (w : WorldT) :
    (m >>= f) w = match m w with
      | (.ok a, w') => f a w'
      | (.throw, w') => (.throw, w') := rfl

theorem SatT.pure {α} {a : α} {w : WorldT} {Q : Res α → WorldT → List EvT → Prop}
    (h : Q (.ok a) w []) : SatT (pure a : MT α) w Q := ⟨[], by simp [Pure.pure], h⟩

theorem SatT.bind {α β} {m : MT α} {f : α → MT β} {w : WorldT} {Q : Res β → WorldT → List EvT → Prop}
    (h : SatT m w (fun r w1 e1 => match r with
      | .ok a => SatT (f a) w1 (fun r' w2 e2 => Q r' w2 (e1 ++ e2))
      | .throw => Q .throw w1 e1)) : SatT (m >>= f) w Q := by
  obtain ⟨e1, h1, h2⟩ := h
  rw [SatT, bindT_eq]
  rcases hm : m w with ⟨r, w1⟩
  rw [hm] at h1 h2
  cases r with
  | throw => exact ⟨e1, h1, h2⟩
  | ok a =>
    obtain ⟨e2, h3, h4⟩ := h2
    refine ⟨e1 ++ e2, ?_, h4⟩
    show ((f a w1).2).trace = _
    rw [h3]
    simp only at h1
    rw [h1, List.append_assoc]

theorem SatT.throwT {α} {w : WorldT} {Q : Res α → WorldT → List EvT → Prop}
    (h : Q .throw w []) : SatT (throwT : MT α) w Q := ⟨[], by simp [ClientTls.throwT], h⟩

theorem SatT.getT {w : WorldT} {Q : Res WorldT → WorldT → List EvT → Prop}
    (h : Q (.ok w) w []) : SatT getT w Q := ⟨[], by simp [ClientTls.getT], h⟩

theorem SatT.modifyT {f : WorldT → WorldT} {w : WorldT} {Q : Res Unit → WorldT → List EvT → Prop}
    (hf : (f w).trace = w.trace) (h : Q (.ok ()) (f w) []) : SatT (modifyT f) w Q :=
  ⟨[], by simp [ClientTls.modifyT, hf], h⟩

theorem SatT.emitT {e : EvT} {w : WorldT} {Q : Res Unit → WorldT → List EvT → Prop}
    (h : Q (.ok ()) { w with trace := w.trace ++ [e] } [e]) : SatT (emitT e) w Q :=
  ⟨[e], by simp [ClientTls.emitT, ClientTls.modifyT], h⟩

theorem SatT.lift {α} {m : M α} {w : WorldT} {Q : Res α → WorldT → List EvT → Prop}
    (h : SatP m { w.base with trace := [] } (fun r b' evs =>
      (∀ pre cmd, brk w evs = some (pre, cmd) →
        Q .throw { w with trace := w.trace ++ (pre ++ [Ev.ctlWriteFail cmd]).map (EvT.ev w.ctlTls) }
          ((pre ++ [Ev.ctlWriteFail cmd]).map (EvT.ev w.ctlTls))) ∧
      (brk w evs = none → closeF w b' = false →
        Q r { w with base := { b' with trace := w.base.trace }, trace := w.trace ++ evs.map (EvT.ev w.ctlTls) }
          (evs.map (EvT.ev w.ctlTls))) ∧
      (brk w evs = none → closeF w b' = true →
        Q .throw { w with base := { b' with trace := w.base.trace },
                          trace := w.trace ++ (uptoClose evs).map (EvT.ev w.ctlTls) }
          ((uptoClose evs).map (EvT.ev w.ctlTls))))) : SatT (lift m) w Q := by
  obtain ⟨evs, h1, h0, h2, h3⟩ := h
  simp only [List.nil_append] at h1
  rw [SatT, lift_eq]
  rw [h1]
  cases hb : brk w evs with
  | some x =>
    obtain ⟨pre, cmd⟩ := x
    exact ⟨(pre ++ [Ev.ctlWriteFail cmd]).map (EvT.ev w.ctlTls), rfl, h0 pre cmd hb⟩
  | none =>
    dsimp only
    cases hc : closeF w (m { w.base with trace := [] }).2 with
    | false => exact ⟨evs.map (EvT.ev w.ctlTls), rfl, h2 hb hc⟩
    | true => exact ⟨(uptoClose evs).map (EvT.ev w.ctlTls), rfl, h3 hb hc⟩

theorem SatT.scopedT {α} {body : MT α} {cleanup : MT Unit} {w : WorldT} {Q : Res α → WorldT → List EvT → Prop}
    (h : SatT body w (fun r w1 e1 => SatT cleanup w1 (fun rc w2 e2 =>
      Q (match r, rc with | .ok a, .ok _ => .ok a | _, _ => .throw) w2 (e1 ++ e2)))) :
    SatT (scopedT body cleanup) w Q := by
  obtain ⟨e1, h1, e2, h2, h3⟩ := h
  unfold SatT ClientTls.scopedT
  rcases hb : body w with ⟨r, w1⟩
  rw [hb] at h1 h2 h3
  simp only at h1 h2 h3
  rcases hc : cleanup w1 with ⟨rc, w2⟩
  rw [hc] at h2 h3
  simp only at h2 h3
  refine ⟨e1 ++ e2, ?_, ?_⟩
  · cases r <;> cases rc <;> simp only [hc] <;> rw [h2, h1, List.append_assoc]
  · cases r <;> cases rc <;> simp only [hc] <;> exact h3

/-- the settings no call between connect and logout changes: TLS context, resumption, state of the control channel -/
def cfg (w : WorldT) : Bool × Bool × Bool := (w.tlsCtx, w.resume, w.ctlTls)

/-- every event appended by `m` satisfies `p` (which may look at the settings), and the settings are kept -/
def AllT {α} (p : Bool × Bool × Bool → EvT → Prop) (m : MT α) : Prop :=
  ∀ w, SatT m w (fun _ w' evs => cfg w' = cfg w ∧ ∀ e ∈ evs, p (cfg w) e)

theorem allT_mono {α} {p q : Bool × Bool × Bool → EvT → Prop} {m : MT α} (h : AllT p m)
    (hpq : ∀ k e, p k e → q k e) : AllT q m :=
  fun w => (h w).mono fun _ _ _ he => ⟨he.1, fun e hm => hpq _ e (he.2 e hm)⟩

theorem allT_pure {α} {p : Bool × Bool × Bool → EvT → Prop} (a : α) : AllT p (pure a : MT α) :=
  fun _ => SatT.pure (by simp)

theorem allT_throwT {α} {p : Bool × Bool × Bool → EvT → Prop} : AllT p (throwT : MT α) :=
  fun _ => SatT.throwT (by simp)

theorem allT_getT {p : Bool × Bool × Bool → EvT → Prop} : AllT p getT :=
  fun _ => SatT.getT (by simp)

theorem allT_modifyT {p : Bool × Bool × Bool → EvT → Prop} {f : WorldT → WorldT}
    (hf : ∀ w, (f w).trace = w.trace ∧ cfg (f w) = cfg w) : AllT p (modifyT f) :=
  fun w => SatT.modifyT (hf w).1 ⟨(hf w).2, by simp⟩

theorem allT_emitT {p : Bool × Bool × Bool → EvT → Prop} {e : EvT} (h : ∀ k, p k e) : AllT p (emitT e) :=
  fun w => SatT.emitT ⟨rfl, by simpa using h _⟩

theorem mem_brk {w : WorldT} {evs pre : List Ev} {c : Bytes} (h : brk w evs = some (pre, c)) {e : Ev} (he : e ∈ pre) :
    e ∈ evs := by
  obtain ⟨_, _, post, rfl⟩ := brk_some h
  exact List.mem_append_left _ he

/-- a lifted program: the events of the plain run - or, when the session is broken, those before its first command
    write and the failed write -/
theorem allT_lift {α} {p : Bool × Bool × Bool → EvT → Prop} {q : Ev → Prop} {m : M α} (h : AllP q m)
    (hpq : ∀ k e, q e → p k (EvT.ev k.2.2 e)) (hfail : ∀ k c, p k (EvT.ev k.2.2 (Ev.ctlWriteFail c))) :
    AllT p (lift m) := by
  intro w
  apply SatT.lift
  apply (h _).mono
  intro r b' evs he
  refine ⟨fun pre cmd hb => ⟨rfl, ?_⟩, fun _ _ => ⟨rfl, ?_⟩, fun _ _ => ⟨rfl, ?_⟩⟩
  · intro e hm
    obtain ⟨e0, h0, rfl⟩ := List.mem_map.1 hm
    rcases List.mem_append.1 h0 with h0 | h0
    · exact hpq (cfg w) e0 (he e0 (mem_brk hb h0))
    · rw [List.mem_singleton.1 h0]; exact hfail (cfg w) cmd
  · intro e hm
    obtain ⟨e0, h0, rfl⟩ := List.mem_map.1 hm
    exact hpq (cfg w) e0 (he e0 h0)
  · intro e hm
    obtain ⟨e0, h0, rfl⟩ := List.mem_map.1 hm
    exact hpq (cfg w) e0 (he e0 (mem_uptoClose h0))

/-- a lifted program that writes no command: the events of the plain run -/
theorem allT_lift_nw {α} {p : Bool × Bool × Bool → EvT → Prop} {q : Ev → Prop} {m : M α} (h : AllP q m)
    (hw : ∀ e, q e → isWrite e = false) (hpq : ∀ k e, q e → p k (EvT.ev k.2.2 e)) : AllT p (lift m) := by
  intro w
  apply SatT.lift
  apply (h _).mono
  intro r b' evs he
  have hn : brk w evs = none := brk_none_of_writes (writes_nil_of_all fun e hm => hw e (he e hm))
  refine ⟨fun pre cmd hb => ?_, fun _ _ => ⟨rfl, ?_⟩, fun _ _ => ⟨rfl, ?_⟩⟩
  · rw [hn] at hb; cases hb
  · intro e hm
    obtain ⟨e0, h0, rfl⟩ := List.mem_map.1 hm
    exact hpq (cfg w) e0 (he e0 h0)
  · intro e hm
    obtain ⟨e0, h0, rfl⟩ := List.mem_map.1 hm
    exact hpq (cfg w) e0 (he e0 (mem_uptoClose h0))

theorem allT_bind {α β} {p : Bool × Bool × Bool → EvT → Prop} {m : MT α} {f : α → MT β}
    (h1 : AllT p m) (h2 : ∀ a, AllT p (f a)) : AllT p (m >>= f) := by
  intro w
  apply SatT.bind
  apply (h1 w).mono
  intro r w1 e1 ⟨hc1, he1⟩
  cases r with
  | throw => exact ⟨hc1, he1⟩
  | ok a =>
    apply (h2 a w1).mono
    intro _ w2 e2 ⟨hc2, he2⟩
    refine ⟨hc2.trans hc1, ?_⟩
    intro e he
    rcases List.mem_append.1 he with h | h
    · exact he1 e h
    · exact hc1 ▸ he2 e h

theorem allT_scopedT {α} {p : Bool × Bool × Bool → EvT → Prop} {body : MT α} {cleanup : MT Unit}
    (h1 : AllT p body) (h2 : AllT p cleanup) : AllT p (scopedT body cleanup) := by
  intro w
  apply SatT.scopedT
  apply (h1 w).mono
  intro r w1 e1 ⟨hc1, he1⟩
  apply (h2 w1).mono
  intro _ w2 e2 ⟨hc2, he2⟩
  refine ⟨hc2.trans hc1, ?_⟩
  intro e he
  rcases List.mem_append.1 he with h | h
  · exact he1 e h
  · exact hc1 ▸ he2 e h

/-! ### event classes of the TLS layer -/

def payloadT : EvT → Bool
  | .ev _ (.dataRead _ _) | .ev _ (.dataWrite _ _) | .ev _ (.sinkWrite _) | .ev _ (.srcRead _ _) => true
  | _ => false

def isHs : EvT → Bool
  | .dataTlsHandshake _ _ _ => true
  | _ => false

def keepT : EvT → Bool
  | .ev _ (.obsReply _ _ _) | .ev _ (.dataAccept _ _) => false
  | _ => true

def plainWrites (tr : List EvT) : List Bytes := tr.filterMap fun | .ev false (.ctlWrite b) => some b | _ => none
def allWrites (tr : List EvT) : List Bytes := tr.filterMap fun | .ev _ (.ctlWrite b) => some b | _ => none

/-- tags are right: plain events carry the state of the control channel, data handshakes offer the session iff the
    context was created with resumption (and there is a context) -/
def TagOk (k : Bool × Bool × Bool) : EvT → Prop
  | .ev t _ => t = k.2.2
  | .dataTlsHandshake _ o _ => o = k.2.1 ∧ k.1 = true
  | _ => True

/-- a lifted event that is not payload -/
def Q3 (k : Bool × Bool × Bool) (e : EvT) : Prop := ∃ e0, e = .ev k.2.2 e0 ∧ payload e0 = false
/-- tags are right and it is not a data handshake -/
def Q2 (k : Bool × Bool × Bool) (e : EvT) : Prop := TagOk k e ∧ isHs e = false

@[simp] theorem payloadT_ev (t : Bool) (e : Ev) : payloadT (.ev t e) = payload e := by cases e <;> rfl
@[simp] theorem keepT_ev (t : Bool) (e : Ev) : keepT (.ev t e) = keep e := by cases e <;> rfl
@[simp] theorem isHs_ev (t : Bool) (e : Ev) : isHs (.ev t e) = false := rfl

theorem q3_q2 {k e} (h : Q3 k e) : Q2 k e := by
  obtain ⟨e0, rfl, _⟩ := h
  exact ⟨rfl, rfl⟩

theorem q3_np {k e} (h : Q3 k e) : payloadT e = false := by
  obtain ⟨e0, rfl, h0⟩ := h
  simpa using h0

theorem q3_lift {α} {m : M α} (h : AllP NP m) : AllT Q3 (lift m) :=
  allT_lift h (fun _ e he => ⟨e, rfl, he⟩) (fun _ _ => ⟨_, rfl, rfl⟩)

theorem q2_lift {α} {p : Ev → Prop} {m : M α} (h : AllP p m) : AllT Q2 (lift m) :=
  allT_lift h (fun _ _ _ => ⟨rfl, rfl⟩) (fun _ _ => ⟨rfl, rfl⟩)

theorem tag_lift {α} {p : Ev → Prop} {m : M α} (h : AllP p m) : AllT TagOk (lift m) :=
  allT_lift h (fun _ _ _ => rfl) (fun _ _ => rfl)

macro "allt_step" : tactic => `(tactic| first
  | exact allT_pure _
  | exact allT_throwT
  | exact allT_getT
  | assumption
  | (apply allT_modifyT; intro _; exact ⟨rfl, rfl⟩)
  | (apply allT_emitT; intro _; first | trivial | exact ⟨trivial, rfl⟩)
  | (refine allT_bind ?_ (fun _ => ?_))
  | (refine allT_scopedT ?_ ?_)
  | split
  | dsimp only)

syntax "allt" ("[" term,* "]")? : tactic
macro_rules
  | `(tactic| allt) => `(tactic| repeat allt_step)
  | `(tactic| allt [$ts,*]) => do
    let alts ← ts.getElems.mapM fun t => `(tactic| with_reducible apply $t)
    `(tactic| repeat (first $[| $alts:tactic]* | allt_step))

/-! ### programs that only lift control / set-up steps -/

theorem pciT_q3 (cmd : Bytes) (rs : Replies) : AllT Q3 (processCommandIntoT cmd rs) :=
  q3_lift (processCommandInto_np cmd rs)

theorem processLoginT_q3 (u p : Bytes) (rs : Replies) : AllT Q3 (processLoginT u p rs) := by
  unfold processLoginT
  allt [pciT_q3, q3_lift (mkCmd_all _ _)]

theorem loginT_q3 (u p : Bytes) : AllT Q3 (loginT u p) := by
  unfold loginT
  allt [processLoginT_q3]

theorem cleanupT_q3 : AllT Q3 cleanupT := by
  unfold cleanupT
  allt [q3_lift destroyConn_np]

theorem dataDisconnectT_q2 (g : Bool) : AllT Q2 (dataDisconnectT g) := by
  unfold dataDisconnectT
  allt [q2_lift (dataDisconnect_np g)]

theorem finishTransferT_q2 (rs : Replies) : AllT Q2 (finishTransferT rs) := by
  unfold finishTransferT
  allt [dataDisconnectT_q2, q2_lift (recvInto_npw _)]

/-- symbolic execution of the primitive steps of the TLS layer -/
macro "wpt_step" : tactic => `(tactic| first
  | with_reducible apply SatT.bind
  | with_reducible apply SatT.getT
  | with_reducible apply SatT.modifyT rfl
  | with_reducible apply SatT.emitT
  | with_reducible apply SatT.throwT
  | with_reducible apply SatT.pure
  | dsimp only)

macro "wpt" : tactic => `(tactic| repeat wpt_step)

theorem dataHandshake_tag : AllT TagOk dataHandshake := by
  intro w
  unfold dataHandshake nextHandshake
  wpt
  split
  · rename_i h
    wpt
    split <;> wpt <;> simp [cfg, TagOk, h]
  · wpt
    simp

theorem q3_tag {α} {m : MT α} (h : AllT Q3 m) : AllT TagOk m := allT_mono h fun _ _ he => (q3_q2 he).1
theorem q2_tag {α} {m : MT α} (h : AllT Q2 m) : AllT TagOk m := allT_mono h fun _ _ he => he.1
theorem q3_to_q2 {α} {m : MT α} (h : AllT Q3 m) : AllT Q2 m := allT_mono h fun _ _ he => q3_q2 he

theorem pciT_tag (cmd : Bytes) (rs : Replies) : AllT TagOk (processCommandIntoT cmd rs) := q3_tag (pciT_q3 cmd rs)

theorem processEpsvT_tag (cmd : Bytes) (rs : Replies) : AllT TagOk (processEpsvT cmd rs) := by
  unfold processEpsvT
  allt [pciT_tag, dataHandshake_tag, tag_lift (dataConnect_np _ _), tag_lift (dataDisconnect_np _)]

theorem processPasvT_tag (cmd : Bytes) (rs : Replies) : AllT TagOk (processPasvT cmd rs) := by
  unfold processPasvT
  allt [pciT_tag, dataHandshake_tag, tag_lift (dataConnect_np _ _), tag_lift (dataDisconnect_np _)]

theorem processActiveT_tag (eprt : Bool) (cmd : Bytes) (rs : Replies) : AllT TagOk (processActiveT eprt cmd rs) := by
  unfold processActiveT
  allt [pciT_tag, dataHandshake_tag, tag_lift dataListen_np, tag_lift dataAccept_nk]

theorem createDataConnectionT_tag (cmd : Bytes) (rs : Replies) : AllT TagOk (createDataConnectionT cmd rs) := by
  unfold createDataConnectionT
  allt [processEpsvT_tag, processPasvT_tag, processActiveT_tag]

theorem downloadT_tag (path : Bytes) : AllT TagOk (downloadT path) := by
  unfold downloadT
  allt [createDataConnectionT_tag, q3_tag cleanupT_q3, q2_tag (finishTransferT_q2 _), tag_lift (mkCmd_all (p := Any) _ _),
    tag_lift (dataRecv_any _ _)]

theorem uploadT_tag (verb : String) (path : Bytes) : AllT TagOk (uploadT verb path) := by
  unfold uploadT
  allt [createDataConnectionT_tag, q3_tag cleanupT_q3, q2_tag (finishTransferT_q2 _), tag_lift (mkCmd_all (p := Any) _ _),
    tag_lift (dataSend_any _ _)]

theorem listingBlock_np (sink : Bytes) : AllP NP (do emit (.listing sink); forObservers (fun o => .obsFileList o sink)) := by
  allp

theorem silence_np : AllP NP (modifyW fun b => { b with sinkSilent := true, sink := [], sinkFailAt := none }) := by
  allp

theorem fileListT_tag (path : Option Bytes) (names : Bool) : AllT TagOk (fileListT path names) := by
  unfold fileListT
  allt [createDataConnectionT_tag, q3_tag cleanupT_q3, q2_tag (dataDisconnectT_q2 _), tag_lift (mkCmd_all (p := Any) _ _),
    tag_lift (dataRecv_any _ _), tag_lift (listingBlock_np _), tag_lift silence_np, tag_lift (recvInto_npw _)]

/-! ### the shape of what data-connection set-up appends -/

def NoHs (evs : List EvT) : Prop := ∀ e ∈ evs, isHs e = false
def NoPay (evs : List EvT) : Prop := ∀ e ∈ evs, payloadT e = false

/-- dropping observer notifications and accepts, the list ends with the framing of a non-negative reply -/
def AccEnd (P : List EvT) : Prop :=
  ∃ tls c t pre, c < 400 ∧ P.filter keepT = pre ++ [EvT.ev tls (.ctlReply c t)]

theorem noHs_nil : NoHs [] := by simp [NoHs]
theorem noPay_nil : NoPay [] := by simp [NoPay]
theorem noHs_append {a b : List EvT} : NoHs (a ++ b) ↔ NoHs a ∧ NoHs b := by
  simp only [NoHs, List.mem_append]
  exact ⟨fun h => ⟨fun e he => h e (Or.inl he), fun e he => h e (Or.inr he)⟩,
    fun h e he => he.elim (h.1 e) (h.2 e)⟩
theorem noPay_append {a b : List EvT} : NoPay (a ++ b) ↔ NoPay a ∧ NoPay b := by
  simp only [NoPay, List.mem_append]
  exact ⟨fun h => ⟨fun e he => h e (Or.inl he), fun e he => h e (Or.inr he)⟩,
    fun h e he => he.elim (h.1 e) (h.2 e)⟩

theorem accEnd_prefix {X P : List EvT} (h : AccEnd P) : AccEnd (X ++ P) := by
  obtain ⟨tls, c, t, pre, hc, hp⟩ := h
  exact ⟨tls, c, t, X.filter keepT ++ pre, hc, by rw [List.filter_append, hp, List.append_assoc]⟩

theorem accEnd_suffix {P Y : List EvT} (h : AccEnd P) (hY : ∀ e ∈ Y, keepT e = false) : AccEnd (P ++ Y) := by
  obtain ⟨tls, c, t, pre, hc, hp⟩ := h
  refine ⟨tls, c, t, pre, hc, ?_⟩
  rw [List.filter_append, hp, List.filter_eq_nil_iff.2 (fun e he => by simp [hY e he]), List.append_nil]

theorem filter_keepT_map (t : Bool) (evs : List Ev) :
    (evs.map (EvT.ev t)).filter keepT = (evs.filter keep).map (EvT.ev t) := by
  induction evs with
  | nil => rfl
  | cons e tl ih =>
    simp only [List.map_cons, List.filter_cons, keepT_ev, ih]
    split <;> rfl

theorem allWrites_append (a b : List EvT) : allWrites (a ++ b) = allWrites a ++ allWrites b := by
  simp [allWrites, List.filterMap_append]

theorem plainWrites_append (a b : List EvT) : plainWrites (a ++ b) = plainWrites a ++ plainWrites b := by
  simp [plainWrites, List.filterMap_append]

theorem allWrites_map (t : Bool) (evs : List Ev) : allWrites (evs.map (EvT.ev t)) = writes evs := by
  induction evs with
  | nil => rfl
  | cons e tl ih =>
    have : allWrites (EvT.ev t e :: tl.map (EvT.ev t)) = writes [e] ++ allWrites (tl.map (EvT.ev t)) := by
      cases e <;> rfl
    rw [List.map_cons, this, ih, ← writes_append]; rfl

theorem nonneg_lt (rep : Reply) (h1 : rep.isNegative = false) (h2 : rep.code ≤ 999) : rep.code < 400 ∧ rep.code ≠ 421 := by
  simp [Reply.isNegative, unspecified] at h1
  omega

theorem cfg_lift {α} (m : M α) (w : WorldT) : cfg (lift m w).2 = cfg w := by
  rw [lift_eq]; split <;> rfl

theorem writes_uptoClose {evs : List Ev} {x : Bytes} (h : writes evs = [] ∨ writes evs = [x]) :
    writes (uptoClose evs) = [] ∨ writes (uptoClose evs) = [x] := by
  obtain ⟨t, ht⟩ := uptoClose_prefix evs
  rw [ht, writes_append] at h
  rcases h with h | h
  · exact Or.inl (List.append_eq_nil_iff.1 h).1
  · cases hu : writes (uptoClose evs) with
    | nil => exact Or.inl rfl
    | cons a l =>
      rw [hu] at h
      simp only [List.cons_append, List.cons.injEq, List.append_eq_nil_iff] at h
      right; rw [h.1, h.2.1]

/-- when the lifted exchange turns into a throw, what was recorded still is what a thrown exchange appends -/
theorem pciPost_uptoClose {cmd : Bytes} {r : Res (Reply × Replies)} {evs : List Ev} (h : PciPost cmd r evs) :
    PciPost cmd .throw (uptoClose evs) := by
  obtain ⟨hnp, hr⟩ := h
  refine ⟨fun e he => hnp e (mem_uptoClose he), ?_⟩
  apply writes_uptoClose
  cases r with
  | throw => exact hr
  | ok a => obtain ⟨rep, rs⟩ := a; exact Or.inr hr.1

/-- one command / reply exchange through the TLS layer -/
theorem pciT_spec (cmd : Bytes) (rs : Replies) (w : WorldT) :
    SatT (processCommandIntoT cmd rs) w (fun r w' evs => cfg w' = cfg w ∧
      ∃ evs0, evs = evs0.map (EvT.ev w.ctlTls) ∧ PciPost cmd r evs0) := by
  unfold processCommandIntoT
  apply SatT.lift
  apply (processCommandInto_spec cmd rs _).mono
  intro r b' evs h
  refine ⟨fun pre c hb => ⟨rfl, pre ++ [Ev.ctlWriteFail c], rfl, ?_⟩, fun _ _ => ⟨rfl, evs, rfl, h⟩,
    fun _ _ => ⟨rfl, uptoClose evs, rfl, pciPost_uptoClose h⟩⟩
  -- the session is broken: the exchange stops at the write, which does not take place
  obtain ⟨_, hwp, _⟩ := brk_some hb
  refine ⟨fun e he => ?_, Or.inl ?_⟩
  · rcases List.mem_append.1 he with he | he
    · exact h.1 e (mem_brk hb he)
    · rw [List.mem_singleton.1 he]; rfl
  · rw [writes_append, hwp]; rfl

theorem noHs_map (t : Bool) (evs : List Ev) : NoHs (evs.map (EvT.ev t)) := by
  intro e he
  obtain ⟨e0, _, rfl⟩ := List.mem_map.1 he
  rfl

theorem noPay_map (t : Bool) {evs : List Ev} (h : ∀ e ∈ evs, NP e) : NoPay (evs.map (EvT.ev t)) := by
  intro e he
  obtain ⟨e0, h0, rfl⟩ := List.mem_map.1 he
  simpa [NP] using h e0 h0

theorem noHs_of_q2 {k} {evs : List EvT} (h : ∀ e ∈ evs, Q2 k e) : NoHs evs := fun e he => (h e he).2
theorem noHs_of_q3 {k} {evs : List EvT} (h : ∀ e ∈ evs, Q3 k e) : NoHs evs := fun e he => (q3_q2 (h e he)).2
theorem noPay_of_q3 {k} {evs : List EvT} (h : ∀ e ∈ evs, Q3 k e) : NoPay evs := fun e he => q3_np (h e he)

def CreatePost (w : WorldT) (r : Res (Bool × Replies)) (evs : List EvT) : Prop :=
  NoPay evs ∧
  ((NoHs evs ∧ (w.tlsCtx = true → ∀ rs, r ≠ .ok (true, rs))) ∨
   (∃ P d o ok, evs = P ++ [EvT.dataTlsHandshake d o ok] ∧ NoHs P ∧ AccEnd P ∧ (ok = false → r = .throw)))

def CreateOK (m : MT (Bool × Replies)) : Prop :=
  ∀ w, SatT m w (fun r w' evs => cfg w' = cfg w ∧ CreatePost w r evs)

theorem createPost_prefix {w w1 : WorldT} {r : Res (Bool × Replies)} {e1 e2 : List EvT} (hc : cfg w1 = cfg w)
    (hp : NoPay e1) (hh : NoHs e1) (h : CreatePost w1 r e2) : CreatePost w r (e1 ++ e2) := by
  have ht : w1.tlsCtx = w.tlsCtx := congrArg Prod.fst hc
  obtain ⟨hp2, h2⟩ := h
  refine ⟨noPay_append.2 ⟨hp, hp2⟩, ?_⟩
  rcases h2 with ⟨hh2, hr⟩ | ⟨P, d, o, ok, rfl, hP, hA, hr⟩
  · exact Or.inl ⟨noHs_append.2 ⟨hh, hh2⟩, fun h => hr (ht ▸ h)⟩
  · exact Or.inr ⟨e1 ++ P, d, o, ok, by rw [List.append_assoc], noHs_append.2 ⟨hh, hP⟩, accEnd_prefix hA, hr⟩

theorem createPost_quiet {w : WorldT} {r : Res (Bool × Replies)} {evs : List EvT}
    (hp : NoPay evs) (hh : NoHs evs) (hr : ∀ rs, r ≠ .ok (true, rs)) : CreatePost w r evs :=
  ⟨hp, Or.inl ⟨hh, fun _ => hr⟩⟩

theorem createOK_bind {α} {m : MT α} {f : α → MT (Bool × Replies)} (h1 : AllT Q3 m) (h2 : ∀ a, CreateOK (f a)) :
    CreateOK (m >>= f) := by
  intro w
  apply SatT.bind
  apply (h1 w).mono
  intro r w1 e1 ⟨hc1, he1⟩
  cases r with
  | throw => exact ⟨hc1, createPost_quiet (noPay_of_q3 he1) (noHs_of_q3 he1) (by simp)⟩
  | ok a =>
    apply (h2 a w1).mono
    intro r2 w2 e2 ⟨hc2, hp2⟩
    exact ⟨hc2.trans hc1, createPost_prefix hc1 (noPay_of_q3 he1) (noHs_of_q3 he1) hp2⟩

theorem createOK_pure_false (rs : Replies) : CreateOK (pure (false, rs)) :=
  fun _ => SatT.pure ⟨rfl, createPost_quiet noPay_nil noHs_nil (by simp)⟩

theorem createOK_throwT : CreateOK throwT :=
  fun _ => SatT.throwT ⟨rfl, createPost_quiet noPay_nil noHs_nil (by simp)⟩

/-- `ssl_handshake_data_connection`, precisely -/
theorem dataHandshake_spec (w : WorldT) :
    SatT dataHandshake w (fun r w' evs => cfg w' = cfg w ∧
      ((w.tlsCtx = false ∧ evs = [] ∧ r = .ok ()) ∨
       (w.tlsCtx = true ∧ ∃ d o ok, evs = [EvT.dataTlsHandshake d o ok] ∧ (ok = false → r = .throw)))) := by
  unfold dataHandshake nextHandshake
  wpt
  split
  · rename_i h
    wpt
    split
    · rename_i hok
      wpt
      exact ⟨rfl, Or.inr ⟨h, _, _, _, rfl, fun _ => rfl⟩⟩
    · rename_i hok
      wpt
      refine ⟨rfl, Or.inr ⟨h, _, _, _, rfl, fun hf => ?_⟩⟩
      simp [hf] at hok
  · rename_i h
    wpt
    exact ⟨rfl, Or.inl ⟨by simpa using h, rfl, rfl⟩⟩

/-- the last segment of every set-up: the transfer command, on a non-negative reply (the accept in active mode and)
    the handshake -/
theorem createOK_final (cmd : Bytes) (rs : Replies) (G : MT Unit) (f : Reply × Replies → MT (Bool × Replies))
    (hG : AllT (fun k e => ∃ e0, e = EvT.ev k.2.2 e0 ∧ NK e0) G)
    (hpos : ∀ rep rs', rep.isNegative = false → f (rep, rs') = (do G; dataHandshake; pure (true, rs')))
    (hneg : ∀ rep rs', rep.isNegative = true → CreateOK (f (rep, rs'))) :
    CreateOK (processCommandIntoT cmd rs >>= f) := by
  intro w
  apply SatT.bind
  apply (pciT_spec cmd rs w).mono
  rintro r w1 e1 ⟨hc1, evs0, rfl, hnp, hpost⟩
  have hp1 := noPay_map w.ctlTls hnp
  have hh1 := noHs_map w.ctlTls evs0
  cases r with
  | throw => exact ⟨hc1, createPost_quiet hp1 hh1 (by simp)⟩
  | ok a =>
    obtain ⟨rep, rs'⟩ := a
    dsimp only at hpost ⊢
    cases hn : rep.isNegative with
    | true =>
      apply (hneg rep rs' hn w1).mono
      intro r2 w2 e2 ⟨hc2, hp2⟩
      exact ⟨hc2.trans hc1, createPost_prefix hc1 hp1 hh1 hp2⟩
    | false =>
      rw [hpos rep rs' hn]
      obtain ⟨hlt, hne⟩ := nonneg_lt rep hn hpost.2.1
      obtain ⟨pre, hpre⟩ := hpost.2.2 hne
      have hacc : AccEnd (evs0.map (EvT.ev w.ctlTls)) :=
        ⟨w.ctlTls, rep.code, rep.text, pre.map (EvT.ev w.ctlTls), hlt, by rw [filter_keepT_map, hpre]; simp⟩
      apply SatT.bind
      apply (hG w1).mono
      intro rg w2 e2 ⟨hc2, he2⟩
      have hk2 : ∀ e ∈ e2, keepT e = false := by
        intro e he
        obtain ⟨e0, rfl, h0⟩ := he2 e he
        simpa using h0.1
      have hp2 : NoPay e2 := by
        intro e he
        obtain ⟨e0, rfl, h0⟩ := he2 e he
        simpa using h0.2
      have hh2 : NoHs e2 := by
        intro e he
        obtain ⟨e0, rfl, h0⟩ := he2 e he
        rfl
      have hpre2 : NoPay (evs0.map (EvT.ev w.ctlTls) ++ e2) := noPay_append.2 ⟨hp1, hp2⟩
      have hhs2 : NoHs (evs0.map (EvT.ev w.ctlTls) ++ e2) := noHs_append.2 ⟨hh1, hh2⟩
      cases rg with
      | throw => exact ⟨hc2.trans hc1, createPost_quiet hpre2 hhs2 (by simp)⟩
      | ok u =>
        dsimp only
        apply SatT.bind
        apply (dataHandshake_spec w2).mono
        intro rh w3 e3 ⟨hc3, h3⟩
        have hcfg : cfg w3 = cfg w := hc3.trans (hc2.trans hc1)
        have ht2 : w2.tlsCtx = w.tlsCtx := congrArg Prod.fst (hc2.trans hc1)
        rcases h3 with ⟨hctx, rfl, rfl⟩ | ⟨hctx, d, o, ok, rfl, hok⟩
        · dsimp only
          apply SatT.pure
          refine ⟨hcfg, ?_⟩
          simp only [List.append_nil]
          refine ⟨hpre2, Or.inl ⟨hhs2, fun h => ?_⟩⟩
          rw [ht2] at hctx
          rw [hctx] at h
          cases h
        · have key : ∀ r' : Res (Bool × Replies), (ok = false → r' = .throw) →
              CreatePost w r' (evs0.map (EvT.ev w.ctlTls) ++ (e2 ++ [EvT.dataTlsHandshake d o ok])) := by
            intro r' hr'
            refine ⟨?_, Or.inr ⟨evs0.map (EvT.ev w.ctlTls) ++ e2, d, o, ok, by rw [List.append_assoc], hhs2,
              accEnd_suffix hacc hk2, hr'⟩⟩
            rw [← List.append_assoc]
            refine noPay_append.2 ⟨hpre2, ?_⟩
            intro e he
            rw [List.mem_singleton.1 he]; rfl
          cases rh with
          | throw => exact ⟨hcfg, key _ (fun _ => rfl)⟩
          | ok u2 =>
            dsimp only
            apply SatT.pure
            refine ⟨hcfg, ?_⟩
            simp only [List.append_nil]
            apply key
            intro hf
            exact absurd (hok hf) (by simp)

theorem createOK_pure_unit_nk : AllT (fun k e => ∃ e0, e = EvT.ev k.2.2 e0 ∧ NK e0) (pure () : MT Unit) := allT_pure _

theorem processEpsvT_ok (cmd : Bytes) (rs : Replies) : CreateOK (processEpsvT cmd rs) := by
  unfold processEpsvT
  refine createOK_bind (pciT_q3 _ _) (fun x => ?_)
  obtain ⟨r, rs1⟩ := x
  dsimp only
  split
  · exact createOK_pure_false _
  · split
    · exact createOK_throwT
    · refine createOK_bind allT_getT (fun w => ?_)
      refine createOK_bind (q3_lift (dataConnect_np _ _)) (fun _ => ?_)
      refine createOK_final _ _ (pure ()) _ createOK_pure_unit_nk (fun rep rs' h => ?_) (fun rep rs' h => ?_)
      · dsimp only; rw [if_neg (by simp [h])]; rfl
      · dsimp only; rw [if_pos h]
        exact createOK_bind (q3_lift (dataDisconnect_np _)) (fun _ => createOK_pure_false _)

theorem processPasvT_ok (cmd : Bytes) (rs : Replies) : CreateOK (processPasvT cmd rs) := by
  unfold processPasvT
  refine createOK_bind (pciT_q3 _ _) (fun x => ?_)
  obtain ⟨r, rs1⟩ := x
  dsimp only
  split
  · exact createOK_pure_false _
  · split
    · exact createOK_throwT
    · refine createOK_bind (q3_lift (dataConnect_np _ _)) (fun _ => ?_)
      refine createOK_final _ _ (pure ()) _ createOK_pure_unit_nk (fun rep rs' h => ?_) (fun rep rs' h => ?_)
      · dsimp only; rw [if_neg (by simp [h])]; rfl
      · dsimp only; rw [if_pos h]
        exact createOK_bind (q3_lift (dataDisconnect_np _)) (fun _ => createOK_pure_false _)

theorem processActiveT_ok (eprt : Bool) (cmd : Bytes) (rs : Replies) : CreateOK (processActiveT eprt cmd rs) := by
  unfold processActiveT
  refine createOK_bind (q3_lift dataListen_np) (fun port => ?_)
  refine createOK_bind allT_getT (fun w => ?_)
  dsimp only
  have jp : ∀ c : Bytes, CreateOK (do
      let __x ← processCommandIntoT c rs
      match __x with
        | (r, rs) =>
          if r.isNegative = true then pure (false, rs)
          else do
            let __x ← processCommandIntoT cmd rs
            match __x with
              | (r, rs) =>
                if r.isNegative = true then pure (false, rs)
                else do
                  lift dataAccept
                  dataHandshake
                  pure (true, rs)) := by
    intro c
    refine createOK_bind (pciT_q3 _ _) (fun x => ?_)
    obtain ⟨r, rs1⟩ := x
    dsimp only
    split
    · exact createOK_pure_false _
    · refine createOK_final _ _ (lift dataAccept) _ ?_ (fun rep rs' h => ?_) (fun rep rs' h => ?_)
      · exact allT_lift_nw dataAccept_nk (fun e he => by cases e <;> first | rfl | (simp [NK, keep] at he))
          (fun _ e he => ⟨e, rfl, he⟩)
      · dsimp only; rw [if_neg (by simp [h])]
      · dsimp only; rw [if_pos h]; exact createOK_pure_false _
  split
  · exact createOK_bind (allT_pure _) (fun c => jp c)
  · split
    · exact createOK_bind (allT_pure _) (fun c => jp c)
    · exact createOK_bind allT_throwT (fun c => jp c)

theorem createDataConnectionT_ok (cmd : Bytes) (rs : Replies) : CreateOK (createDataConnectionT cmd rs) := by
  unfold createDataConnectionT
  refine createOK_bind allT_getT (fun w => ?_)
  refine createOK_bind (allT_modifyT fun _ => ⟨rfl, rfl⟩) (fun _ => ?_)
  split
  · exact processEpsvT_ok _ _
  · exact processPasvT_ok _ _
  · exact processActiveT_ok _ _ _
  · exact processActiveT_ok _ _ _

/-! ### the shape of what a whole call appends -/

def Shape (w : WorldT) (thrown : Prop) (evs : List EvT) : Prop :=
  (NoHs evs ∧ (w.tlsCtx = true → NoPay evs)) ∨
  (∃ P d o ok Q, evs = P ++ EvT.dataTlsHandshake d o ok :: Q ∧ NoHs P ∧ NoPay P ∧ AccEnd P ∧ NoHs Q ∧
    (ok = false → thrown ∧ NoPay Q))

theorem shape_of_q3 {w : WorldT} {thrown : Prop} {k} {evs : List EvT} (h : ∀ e ∈ evs, Q3 k e) : Shape w thrown evs :=
  Or.inl ⟨noHs_of_q3 h, fun _ => noPay_of_q3 h⟩

/-- a call that does not touch the data connection -/
theorem shape_q3 {α} {m : MT α} (h : AllT Q3 m) (w : WorldT) :
    SatT m w (fun r _ evs => Shape w (r = .throw) evs) :=
  (h w).mono fun _ _ _ he => shape_of_q3 he.2

/-- a transfer: command, set-up, (transfer and final reply), scope exit -/
theorem transfer_shape {α} {mk : MT Bytes} {f : Bool × Replies → MT α} (hmk : AllT Q3 mk)
    (ht : ∀ rs, AllT Q2 (f (true, rs))) (hf : ∀ rs, AllT Q3 (f (false, rs))) (w : WorldT) :
    SatT (scopedT (mk >>= fun c => createDataConnectionT c Replies.empty >>= f) cleanupT) w
      (fun r _ evs => Shape w (r = .throw) evs) := by
  apply SatT.scopedT
  apply SatT.bind
  apply (hmk w).mono
  intro r0 w0 e0 ⟨hc0, he0⟩
  have hp0 := noPay_of_q3 he0
  have hh0 := noHs_of_q3 he0
  -- what the scope exit adds, in every case
  have cleanup : ∀ (w1 : WorldT) (Q : Res Unit → WorldT → List EvT → Prop),
      (∀ rc w2 e2, NoHs e2 → NoPay e2 → Q rc w2 e2) → SatT cleanupT w1 Q := by
    intro w1 Q hQ
    apply (cleanupT_q3 w1).mono
    intro rc w2 e2 ⟨_, he2⟩
    exact hQ rc w2 e2 (noHs_of_q3 he2) (noPay_of_q3 he2)
  cases r0 with
  | throw =>
    apply cleanup
    intro rc w2 e2 hh2 hp2
    exact Or.inl ⟨noHs_append.2 ⟨hh0, hh2⟩, fun _ => noPay_append.2 ⟨hp0, hp2⟩⟩
  | ok c =>
    dsimp only
    apply SatT.bind
    apply (createDataConnectionT_ok c Replies.empty w0).mono
    intro r1 w1 e1 ⟨hc1, hp1, hcase⟩
    have ht1 : w0.tlsCtx = w.tlsCtx := congrArg Prod.fst hc0
    cases r1 with
    | throw =>
      apply cleanup
      intro rc w2 e2 hh2 hp2
      rcases hcase with ⟨hh1, _⟩ | ⟨P, d, o, ok, rfl, hP, hA, _⟩
      · exact Or.inl ⟨noHs_append.2 ⟨noHs_append.2 ⟨hh0, hh1⟩, hh2⟩,
          fun _ => noPay_append.2 ⟨noPay_append.2 ⟨hp0, hp1⟩, hp2⟩⟩
      · refine Or.inr ⟨e0 ++ P, d, o, ok, e2, by simp, noHs_append.2 ⟨hh0, hP⟩,
          noPay_append.2 ⟨hp0, (noPay_append.1 hp1).1⟩, accEnd_prefix hA, hh2, fun _ => ⟨?_, hp2⟩⟩
        cases rc <;> rfl
    | ok x =>
      obtain ⟨ready, rs⟩ := x
      dsimp only
      cases ready with
      | false =>
        apply (hf rs w1).mono
        intro r2 w2 e2 ⟨_, he2⟩
        have hp2 := noPay_of_q3 he2
        have hh2 := noHs_of_q3 he2
        apply cleanup
        intro rc w3 e3 hh3 hp3
        rcases hcase with ⟨hh1, _⟩ | ⟨P, d, o, ok, rfl, hP, hA, hok⟩
        · exact Or.inl ⟨noHs_append.2 ⟨noHs_append.2 ⟨hh0, noHs_append.2 ⟨hh1, hh2⟩⟩, hh3⟩,
            fun _ => noPay_append.2 ⟨noPay_append.2 ⟨hp0, noPay_append.2 ⟨hp1, hp2⟩⟩, hp3⟩⟩
        · refine Or.inr ⟨e0 ++ P, d, o, ok, e2 ++ e3, by simp, noHs_append.2 ⟨hh0, hP⟩,
            noPay_append.2 ⟨hp0, (noPay_append.1 hp1).1⟩, accEnd_prefix hA, noHs_append.2 ⟨hh2, hh3⟩, fun hk => ?_⟩
          exact absurd (hok hk) (by simp)
      | true =>
        apply (ht rs w1).mono
        intro r2 w2 e2 ⟨_, he2⟩
        have hh2 := noHs_of_q2 he2
        apply cleanup
        intro rc w3 e3 hh3 hp3
        rcases hcase with ⟨hh1, hne⟩ | ⟨P, d, o, ok, rfl, hP, hA, hok⟩
        · refine Or.inl ⟨noHs_append.2 ⟨noHs_append.2 ⟨hh0, noHs_append.2 ⟨hh1, hh2⟩⟩, hh3⟩, fun hctx => ?_⟩
          exact absurd rfl (hne (ht1 ▸ hctx) rs)
        · refine Or.inr ⟨e0 ++ P, d, o, ok, e2 ++ e3, by simp, noHs_append.2 ⟨hh0, hP⟩,
            noPay_append.2 ⟨hp0, (noPay_append.1 hp1).1⟩, accEnd_prefix hA, noHs_append.2 ⟨hh2, hh3⟩, fun hk => ?_⟩
          exact absurd (hok hk) (by simp)

theorem downloadT_shape (path : Bytes) (w : WorldT) :
    SatT (downloadT path) w (fun r _ evs => Shape w (r = .throw) evs) := by
  unfold downloadT
  refine transfer_shape (q3_lift (mkCmd_all _ _)) (fun rs => ?_) (fun rs => ?_) w
  · allt [q2_lift (dataRecv_any _ _), finishTransferT_q2]
  · allt

theorem uploadT_shape (verb : String) (path : Bytes) (w : WorldT) :
    SatT (uploadT verb path) w (fun r _ evs => Shape w (r = .throw) evs) := by
  unfold uploadT
  refine transfer_shape (q3_lift (mkCmd_all _ _)) (fun rs => ?_) (fun rs => ?_) w
  · allt [q2_lift (dataSend_any _ _), finishTransferT_q2]
  · allt

theorem fileListT_shape (path : Option Bytes) (names : Bool) (w : WorldT) :
    SatT (fileListT path names) w (fun r _ evs => Shape w (r = .throw) evs) := by
  unfold fileListT
  refine transfer_shape (q3_lift (mkCmd_all _ _)) (fun rs => ?_) (fun rs => ?_) w
  · allt [q2_lift (dataRecv_any _ _), dataDisconnectT_q2, q2_lift (listingBlock_np _), q2_lift silence_np,
      q2_lift (recvInto_npw _)]
  · allt

/-- forgetting the result of a call -/
theorem satT_discard {α} {m : MT α} {w : WorldT} {Q : Prop → WorldT → List EvT → Prop}
    (h : SatT m w (fun r w' evs => Q (r = .throw) w' evs)) :
    SatT (do let _ ← m; pure ()) w (fun r w' evs => Q (r = .throw) w' evs) := by
  apply SatT.bind
  apply h.mono
  intro r w' evs hq
  cases r with
  | throw =>
    dsimp only
    have : ((Res.throw : Res α) = Res.throw) = ((Res.throw : Res Unit) = Res.throw) := by simp
    rw [← this]; exact hq
  | ok a =>
    dsimp only
    apply SatT.pure
    rw [List.append_nil]
    have : (Res.ok a = Res.throw) = ((Res.ok () : Res Unit) = Res.throw) := by simp
    rw [← this]; exact hq

theorem allT_discard {α} {p} {m : MT α} (h : AllT p m) : AllT p (do let _ ← m; pure ()) :=
  allT_bind h fun _ => allT_pure _

/-! ### what the shape and the tags say about a trace -/

theorem split_unique {P Q : List EvT} {x y : EvT} (hP : NoHs P) (hQ : NoHs Q) (hy : isHs y = true) :
    ∀ {pre post : List EvT}, P ++ x :: Q = pre ++ y :: post → pre = P ∧ x = y ∧ post = Q := by
  induction P with
  | nil =>
    intro pre post h
    cases pre with
    | nil =>
      simp only [List.nil_append, List.cons.injEq] at h
      exact ⟨rfl, h.1, h.2.symm⟩
    | cons a pre' =>
      simp only [List.nil_append, List.cons_append, List.cons.injEq] at h
      have : y ∈ Q := by rw [h.2]; simp
      rw [hQ y this] at hy; cases hy
  | cons a P' ih =>
    intro pre post h
    cases pre with
    | nil =>
      simp only [List.nil_append, List.cons_append, List.cons.injEq] at h
      have := hP a (by simp)
      rw [h.1, hy] at this; cases this
    | cons b pre' =>
      simp only [List.cons_append, List.cons.injEq] at h
      obtain ⟨h1, h2, h3⟩ := ih (fun e he => hP e (by simp [he])) h.2
      exact ⟨by rw [h.1, h1], h2, h3⟩

theorem before_payload {P Q : List EvT} {x e : EvT} (hP : NoPay P) (hx : payloadT x = false) (he : payloadT e = true) :
    ∀ {pre post : List EvT}, P ++ x :: Q = pre ++ e :: post → x ∈ pre ∧ ∃ Q1, Q = Q1 ++ e :: post := by
  induction P with
  | nil =>
    intro pre post h
    cases pre with
    | nil =>
      simp only [List.nil_append, List.cons.injEq] at h
      rw [h.1, he] at hx; cases hx
    | cons a pre' =>
      simp only [List.nil_append, List.cons_append, List.cons.injEq] at h
      exact ⟨by simp [h.1], pre', h.2⟩
  | cons a P' ih =>
    intro pre post h
    cases pre with
    | nil =>
      simp only [List.nil_append, List.cons_append, List.cons.injEq] at h
      have := hP a (by simp)
      rw [h.1, he] at this; cases this
    | cons b pre' =>
      simp only [List.cons_append, List.cons.injEq] at h
      obtain ⟨h1, h2⟩ := ih (fun e he => hP e (by simp [he])) h.2
      exact ⟨by simp [h1], h2⟩

theorem shape_before_payload {w : WorldT} {thrown : Prop} {evs : List EvT} (h : Shape w thrown evs)
    (hctx : w.tlsCtx = true) {pre post : List EvT} {e : EvT} (hs : evs = pre ++ e :: post) (hp : payloadT e = true) :
    ∃ d o, EvT.dataTlsHandshake d o true ∈ pre := by
  rcases h with ⟨_, hnp⟩ | ⟨P, d, o, ok, Q, rfl, hP, hPp, hA, hQ, hok⟩
  · have := hnp hctx e (by rw [hs]; simp)
    rw [this] at hp; cases hp
  · obtain ⟨hmem, Q1, hQ1⟩ := before_payload hPp rfl hp hs
    cases ok with
    | true => exact ⟨d, o, hmem⟩
    | false =>
      have := (hok rfl).2 e (by rw [hQ1]; simp)
      rw [this] at hp; cases hp

theorem shape_after_acceptance {w : WorldT} {thrown : Prop} {evs : List EvT} (h : Shape w thrown evs)
    {pre post : List EvT} {d : Nat} {o ok : Bool} (hs : evs = pre ++ EvT.dataTlsHandshake d o ok :: post) :
    AccEnd pre := by
  rcases h with ⟨hnh, _⟩ | ⟨P, d', o', ok', Q, rfl, hP, hPp, hA, hQ, hok⟩
  · have := hnh (EvT.dataTlsHandshake d o ok) (by rw [hs]; simp)
    cases this
  · obtain ⟨h1, _, _⟩ := split_unique hP hQ rfl hs
    rw [h1]; exact hA

theorem shape_failure {w : WorldT} {thrown : Prop} {evs : List EvT} (h : Shape w thrown evs)
    {d : Nat} {o : Bool} (hf : EvT.dataTlsHandshake d o false ∈ evs) : thrown ∧ NoPay evs := by
  rcases h with ⟨hnh, _⟩ | ⟨P, d', o', ok', Q, rfl, hP, hPp, hA, hQ, hok⟩
  · cases hnh _ hf
  · obtain ⟨pre, post, hs⟩ := List.append_of_mem hf
    obtain ⟨_, h2, _⟩ := split_unique hP hQ rfl hs
    injection h2 with _ _ h2
    obtain ⟨ht, hq⟩ := hok h2
    refine ⟨ht, noPay_append.2 ⟨hPp, ?_⟩⟩
    intro e he
    rcases List.mem_cons.1 he with rfl | he
    · rfl
    · exact hq e he

theorem shape_count {w : WorldT} {thrown : Prop} {evs : List EvT} (h : Shape w thrown evs) :
    (evs.filter isHs).length ≤ 1 := by
  rcases h with ⟨hnh, _⟩ | ⟨P, d', o', ok', Q, rfl, hP, hPp, hA, hQ, hok⟩
  · rw [List.filter_eq_nil_iff.2 (fun e he => by simp [hnh e he])]; simp
  · rw [List.filter_append, List.filter_cons, List.filter_eq_nil_iff.2 (fun e he => by simp [hP e he]),
      List.filter_eq_nil_iff.2 (fun e he => by simp [hQ e he])]
    simp [isHs]

theorem tag_plain {k : Bool × Bool × Bool} {evs : List EvT} (h : ∀ e ∈ evs, TagOk k e) (hk : k.2.2 = true) :
    plainWrites evs = [] := by
  induction evs with
  | nil => rfl
  | cons e t ih =>
    have he := h e (by simp)
    have ht := ih (fun x hx => h x (by simp [hx]))
    have : plainWrites (e :: t) = plainWrites [e] ++ plainWrites t := plainWrites_append [e] t
    rw [this, ht, List.append_nil]
    cases e with
    | ev tag e0 =>
      have : tag = true := by rw [← hk]; exact he
      subst this
      cases e0 <;> rfl
    | _ => rfl

theorem tag_offer {k : Bool × Bool × Bool} {evs : List EvT} (h : ∀ e ∈ evs, TagOk k e) {d : Nat} {o ok : Bool}
    (hm : EvT.dataTlsHandshake d o ok ∈ evs) : o = k.2.1 ∧ k.1 = true := h _ hm

/-! ### connect -/

/-- `connectT` after the credentials have been validated -/
def connectBody (host : Bytes) (port : Nat) (cred : Option (Bytes × Bytes)) : MT Replies := do
  modifyT fun w => { w with ctlTls := false, ctlSsl := false }
  lift (do
    modifyW fun w =>
      let g : Group := match w.script with
        | g :: _ => g
        | [] => { raws := [] }
      { w with ctl := {}, connected := true, script := w.script.tail, net := { w.net with stream := g.raws.flatten } }
    emit (.ctlConnect host port)
    forObservers (fun o => .obsConnected o host port))
  let (r, rs) ← lift (recvInto Replies.empty)
  let (r, rs) ← if r.code == 120 then lift (recvInto rs) else pure (r, rs)
  if r.isNegative then pure rs
  else
    let w ← getT
    let afterTls (rs : Replies) : MT Replies :=
      match cred with
      | some (u, p) => do let (_, rs) ← processLoginT u p rs; pure rs
      | none => pure rs
    if w.tlsCtx then
      let (r, rs) ← processCommandIntoT (str "AUTH TLS") rs
      if r.isNegative then pure rs
      else
        modifyT fun w => { w with ctlSsl := true }
        let ok ← nextHandshake
        emitT (.ctlTlsHandshake ok)
        if !ok then throwT
        else
          modifyT fun w => { w with ctlTls := true }
          afterTls rs
    else afterTls rs

/-- `connectT` on a client that is still connected: the open connection is abandoned (closed, no shutdown) -/
def connectDropT : MT Unit := do
  let w0 ← getT
  if w0.base.connected then
    emitT (.ev w0.ctlTls .ctlClose)
    modifyT fun w => { w with base := { w.base with connected := false } }

theorem getT_ite_jp {α} (c : WorldT → Bool) (a : WorldT → MT Unit) (b : MT Unit) (rest : MT α) :
    (getT >>= fun w0 => if c w0 then a w0 >>= fun _ => b >>= fun _ => rest else rest) =
      (getT >>= fun w0 => if c w0 then (a w0 >>= fun _ => b) else pure ()) >>= fun _ => rest := by
  funext w
  show (if c w then a w >>= fun _ => b >>= fun _ => rest else rest) w =
    ((if c w then (a w >>= fun _ => b) else pure ()) >>= fun _ => rest) w
  cases c w
  · rfl
  · simp only [if_true, bindT_eq]
    rcases a w w with ⟨r | _, w1⟩
    · simp only []
    · rfl

theorem connectT_eq (host : Bytes) (port : Nat) (cred : Option (Bytes × Bytes)) :
    connectT host port cred =
      match cred with
      | some (u, p) => lift (mkCmd "USER" (some u)) >>= fun _ => lift (mkCmd "PASS" (some p)) >>= fun _ =>
          connectDropT >>= fun _ => connectBody host port cred
      | none => connectDropT >>= fun _ => connectBody host port cred := by
  cases cred with
  | none =>
    exact getT_ite_jp (fun w => w.base.connected) (fun w0 => emitT (.ev w0.ctlTls .ctlClose))
      (modifyT fun w => { w with base := { w.base with connected := false } }) (connectBody host port none)
  | some c =>
    obtain ⟨u, p⟩ := c
    show (lift (mkCmd "USER" (some u)) >>= fun _ => lift (mkCmd "PASS" (some p)) >>= fun _ => _) = _
    congr 1; funext _; congr 1; funext _
    exact getT_ite_jp (fun w => w.base.connected) (fun w0 => emitT (.ev w0.ctlTls .ctlClose))
      (modifyT fun w => { w with base := { w.base with connected := false } }) (connectBody host port (some (u, p)))

def AllEv (t : Bool) (X : List EvT) : Prop := ∀ e ∈ X, ∃ e0, e = EvT.ev t e0

theorem allEv_nil (t : Bool) : AllEv t [] := by simp [AllEv]
theorem allEv_append {t : Bool} {a b : List EvT} : AllEv t (a ++ b) ↔ AllEv t a ∧ AllEv t b := by
  simp only [AllEv, List.mem_append]
  exact ⟨fun h => ⟨fun e he => h e (Or.inl he), fun e he => h e (Or.inr he)⟩,
    fun h e he => he.elim (h.1 e) (h.2 e)⟩
theorem allEv_map (t : Bool) (evs : List Ev) : AllEv t (evs.map (EvT.ev t)) := by
  intro e he
  obtain ⟨e0, _, rfl⟩ := List.mem_map.1 he
  exact ⟨e0, rfl⟩

/-- the first command line of a TLS connection -/
def AUTHL : Bytes := str "AUTH TLS" ++ CRLF

def ConnPost0 (r : Res Replies) (w' : WorldT) (evs : List EvT) : Prop :=
  (AllEv false evs ∧ (allWrites evs = [] ∨ allWrites evs = [AUTHL])) ∨
  (∃ X, evs = X ++ [EvT.ctlTlsHandshake false] ∧ AllEv false X ∧ allWrites X = [AUTHL] ∧ r = .throw) ∨
  (∃ X Y, evs = X ++ EvT.ctlTlsHandshake true :: Y ∧ AllEv false X ∧ allWrites X = [AUTHL] ∧ AllEv true Y ∧
    w'.ctlTls = true)

/-- the close of a connection that `connect` found still open -/
def DropEvs (P : List EvT) : Prop := P = [] ∨ ∃ t, P = [EvT.ev t .ctlClose]

/-- what `connect` appends: possibly the close of the abandoned connection, then the new connection -/
def ConnPost (r : Res Replies) (w' : WorldT) (evs : List EvT) : Prop :=
  ∃ P rest, evs = P ++ rest ∧ DropEvs P ∧ ConnPost0 r w' rest

/-- a lifted step that writes no command -/
theorem lift_npw {α} {m : M α} (h : AllP NPW m) (w : WorldT) :
    SatT (lift m) w (fun _ w' evs => w'.tlsCtx = w.tlsCtx ∧ w'.ctlTls = w.ctlTls ∧ AllEv w.ctlTls evs ∧
      allWrites evs = []) := by
  apply SatT.lift
  apply (h _).mono
  intro r b' evs he
  have hn : brk w evs = none := brk_none_of_writes (writes_nil_of_all fun e hm => (he e hm).2)
  refine ⟨fun pre c hb => ?_, fun _ _ => ⟨rfl, rfl, allEv_map _ _, ?_⟩, fun _ _ => ⟨rfl, rfl, allEv_map _ _, ?_⟩⟩
  · rw [hn] at hb; cases hb
  · rw [allWrites_map]
    exact writes_nil_of_all fun e hm => (he e hm).2
  · rw [allWrites_map]
    exact writes_nil_of_all fun e hm => (he e (mem_uptoClose hm)).2

theorem openBlock_npw (host : Bytes) (port : Nat) : AllP NPW (do
    modifyW fun w =>
      let g : Group := match w.script with
        | g :: _ => g
        | [] => { raws := [] }
      { w with ctl := {}, connected := true, script := w.script.tail, net := { w.net with stream := g.raws.flatten } }
    emit (.ctlConnect host port)
    forObservers (fun o => .obsConnected o host port)) := by
  allp

theorem satT_ite_jp {α β} {c : Prop} [Decidable c] {a b : MT α} {f : α → MT β} {w : WorldT}
    {Q : Res β → WorldT → List EvT → Prop} (h : SatT ((if c then a else b) >>= f) w Q) :
    SatT (if c then a >>= f else b >>= f) w Q := by
  by_cases hc : c
  · simp only [hc, if_true] at h ⊢; exact h
  · simp only [hc, if_false] at h ⊢; exact h

theorem afterTls_spec (cred : Option (Bytes × Bytes)) (rs : Replies) :
    AllT Q3 (match cred with
      | some (u, p) => do let __x ← processLoginT u p rs; pure __x.snd
      | none => pure rs : MT Replies) := by
  allt [processLoginT_q3]

theorem connectBody_spec (host : Bytes) (port : Nat) (cred : Option (Bytes × Bytes)) (w : WorldT)
    (h : w.tlsCtx = true) : SatT (connectBody host port cred) w ConnPost0 := by
  unfold connectBody
  dsimp only
  apply SatT.bind; apply SatT.modifyT rfl; dsimp only
  apply SatT.bind
  apply (lift_npw (openBlock_npw host port) _).mono
  intro r1 w1 e1 ⟨ht1, hl1, ha1, hw1⟩
  dsimp only at ht1 hl1 ha1
  rw [h] at ht1
  cases r1 with
  | throw => exact Or.inl ⟨by simpa using ha1, Or.inl (by simpa using hw1)⟩
  | ok u1 =>
    dsimp only
    apply SatT.bind
    apply (lift_npw (recvInto_npw _) w1).mono
    intro r2 w2 e2 ⟨ht2, hl2, ha2, hw2⟩
    rw [hl1] at ha2 hl2
    rw [ht1] at ht2
    have ha12 : AllEv false (e1 ++ e2) := allEv_append.2 ⟨ha1, ha2⟩
    have hw12 : allWrites (e1 ++ e2) = [] := by rw [allWrites_append, hw1, hw2]; rfl
    cases r2 with
    | throw => exact Or.inl ⟨by simpa using ha12, Or.inl (by simpa using hw12)⟩
    | ok x2 =>
      obtain ⟨rep2, rs2⟩ := x2
      dsimp only
      apply satT_ite_jp
      apply SatT.bind
      have stage : SatT (if (rep2.code == 120) = true then lift (recvInto rs2) else pure (rep2, rs2)) w2
          (fun _ w' evs => w'.tlsCtx = w2.tlsCtx ∧ w'.ctlTls = w2.ctlTls ∧ AllEv w2.ctlTls evs ∧ allWrites evs = []) := by
        split
        · exact lift_npw (recvInto_npw _) w2
        · exact SatT.pure ⟨rfl, rfl, allEv_nil _, rfl⟩
      apply stage.mono
      intro r3 w3 e3 ⟨ht3, hl3, ha3, hw3⟩
      rw [hl2] at ha3 hl3
      rw [ht2] at ht3
      have ha13 : AllEv false (e1 ++ (e2 ++ e3)) := allEv_append.2 ⟨ha1, allEv_append.2 ⟨ha2, ha3⟩⟩
      have hw13 : allWrites (e1 ++ (e2 ++ e3)) = [] := by
        rw [allWrites_append, allWrites_append, hw1, hw2, hw3]; rfl
      cases r3 with
      | throw => exact Or.inl ⟨by simpa using ha13, Or.inl (by simpa using hw13)⟩
      | ok x3 =>
        obtain ⟨rep3, rs3⟩ := x3
        dsimp only
        split
        · apply SatT.pure
          exact Or.inl ⟨by simpa using ha13, Or.inl (by simpa using hw13)⟩
        · apply SatT.bind; apply SatT.getT; dsimp only
          rw [if_pos ht3]
          apply SatT.bind
          apply (pciT_spec (str "AUTH TLS") rs3 w3).mono
          rintro r4 w4 e4 ⟨hc4, evs4, rfl, hnp4, hpost4⟩
          rw [hl3]
          have ha4 : AllEv false (evs4.map (EvT.ev false)) := allEv_map _ _
          have ha14 : AllEv false (e1 ++ (e2 ++ (e3 ++ evs4.map (EvT.ev false)))) :=
            allEv_append.2 ⟨ha1, allEv_append.2 ⟨ha2, allEv_append.2 ⟨ha3, ha4⟩⟩⟩
          have hw14 : allWrites (e1 ++ (e2 ++ (e3 ++ evs4.map (EvT.ev false)))) = writes evs4 := by
            rw [allWrites_append, allWrites_append, allWrites_append, hw1, hw2, hw3, allWrites_map]; rfl
          cases r4 with
          | throw =>
            refine Or.inl ⟨by simpa using ha14, ?_⟩
            simp only [List.nil_append]
            rw [hw14]
            exact hpost4
          | ok x4 =>
            obtain ⟨rep4, rs4⟩ := x4
            dsimp only at hpost4 ⊢
            have hw14' : allWrites (e1 ++ (e2 ++ (e3 ++ evs4.map (EvT.ev false)))) = [AUTHL] := by
              rw [hw14]; exact hpost4.1
            split
            · apply SatT.pure
              refine Or.inl ⟨by simpa using ha14, Or.inr ?_⟩
              simpa using hw14'
            · unfold nextHandshake
              wpt
              split
              · rename_i hok
                wpt
                refine Or.inr (Or.inl ⟨e1 ++ (e2 ++ (e3 ++ evs4.map (EvT.ev false))), ?_, ha14, hw14', rfl⟩)
                have : w4.hsOks.head?.getD true = false := by simpa using hok
                simp [this]
              · rename_i hok
                have hok' : w4.hsOks.head?.getD true = true := by simpa using hok
                wpt
                apply (afterTls_spec cred rs4 _).mono
                intro r5 w5 e5 ⟨hc5, he5⟩
                have hl5 : w5.ctlTls = true := congrArg (fun k => k.2.2) hc5
                refine Or.inr (Or.inr ⟨e1 ++ (e2 ++ (e3 ++ evs4.map (EvT.ev false))), e5, ?_, ha14, hw14', ?_, hl5⟩)
                · simp [hok']
                · intro e he
                  obtain ⟨e0, rfl, _⟩ := he5 e he
                  exact ⟨e0, rfl⟩

theorem lift_mkCmd_spec (verb : String) (arg : Option Bytes) (w : WorldT) :
    SatT (lift (mkCmd verb arg)) w (fun _ w' evs => w' = w ∧ evs = []) := by
  unfold SatT
  rw [lift_mkCmd]
  exact ⟨[], by simp, rfl, rfl⟩

theorem connectDropT_spec (w : WorldT) :
    SatT connectDropT w (fun r w' evs => r = .ok () ∧ w'.tlsCtx = w.tlsCtx ∧ DropEvs evs) := by
  unfold connectDropT
  apply SatT.bind; apply SatT.getT; dsimp only
  split
  · apply SatT.bind; apply SatT.emitT; dsimp only
    apply SatT.modifyT rfl
    exact ⟨rfl, rfl, Or.inr ⟨_, rfl⟩⟩
  · exact SatT.pure ⟨rfl, rfl, Or.inl rfl⟩

theorem connectRest_spec (host : Bytes) (port : Nat) (cred : Option (Bytes × Bytes)) (w : WorldT)
    (h : w.tlsCtx = true) : SatT (connectDropT >>= fun _ => connectBody host port cred) w ConnPost := by
  apply SatT.bind
  apply (connectDropT_spec w).mono
  rintro r1 w1 e1 ⟨rfl, ht, hp⟩
  dsimp only
  apply (connectBody_spec host port cred w1 (ht.trans h)).mono
  intro r w' e hq
  exact ⟨e1, e, rfl, hp, hq⟩

theorem connPost_nil {r : Res Replies} {w' : WorldT} : ConnPost r w' [] :=
  ⟨[], [], rfl, Or.inl rfl, Or.inl ⟨allEv_nil _, Or.inl rfl⟩⟩

/-- what `connect` with a TLS context appends -/
theorem connectT_spec (host : Bytes) (port : Nat) (cred : Option (Bytes × Bytes)) (w : WorldT)
    (h : w.tlsCtx = true) : SatT (connectT host port cred) w ConnPost := by
  rw [connectT_eq]
  cases cred with
  | none => exact connectRest_spec host port none w h
  | some c =>
    obtain ⟨u, p⟩ := c
    dsimp only
    apply SatT.bind
    apply (lift_mkCmd_spec _ _ w).mono
    rintro r1 w1 e1 ⟨rfl, rfl⟩
    cases r1 with
    | throw => exact connPost_nil
    | ok c1 =>
      dsimp only
      apply SatT.bind
      apply (lift_mkCmd_spec _ _ w1).mono
      rintro r2 w2 e2 ⟨rfl, rfl⟩
      cases r2 with
      | throw => exact connPost_nil
      | ok c2 =>
        dsimp only
        simp only [List.nil_append]
        exact connectRest_spec host port (some (u, p)) w2 h

/-! ### what `ConnPost` says about the trace -/

theorem not_mem_allEv {t : Bool} {X : List EvT} (h : AllEv t X) (b : Bool) : EvT.ctlTlsHandshake b ∉ X := by
  intro hm
  obtain ⟨e0, he0⟩ := h _ hm
  cases he0

theorem plainWrites_allEv_false {X : List EvT} (h : AllEv false X) : plainWrites X = allWrites X := by
  induction X with
  | nil => rfl
  | cons e t ih =>
    have ht := ih (fun x hx => h x (by simp [hx]))
    obtain ⟨e0, rfl⟩ := h e (by simp)
    have h1 : plainWrites (EvT.ev false e0 :: t) = plainWrites [EvT.ev false e0] ++ plainWrites t :=
      plainWrites_append [_] t
    have h2 : allWrites (EvT.ev false e0 :: t) = allWrites [EvT.ev false e0] ++ allWrites t :=
      allWrites_append [_] t
    rw [h1, h2, ht]
    cases e0 <;> rfl

theorem plainWrites_allEv_true {X : List EvT} (h : AllEv true X) : plainWrites X = [] := by
  apply tag_plain (k := (true, true, true)) _ rfl
  intro e he
  obtain ⟨e0, rfl⟩ := h e he
  rfl

theorem connPost0_plain {r : Res Replies} {w' : WorldT} {evs : List EvT} (h : ConnPost0 r w' evs) :
    plainWrites evs = [] ∨ plainWrites evs = [AUTHL] := by
  rcases h with ⟨ha, hw⟩ | ⟨X, rfl, ha, hw, _⟩ | ⟨X, Y, rfl, ha, hw, hy, _⟩
  · rw [plainWrites_allEv_false ha]; exact hw
  · right
    rw [plainWrites_append, plainWrites_allEv_false ha, hw]; rfl
  · right
    have : plainWrites (EvT.ctlTlsHandshake true :: Y) = plainWrites Y := rfl
    rw [plainWrites_append, plainWrites_allEv_false ha, hw, this, plainWrites_allEv_true hy]; rfl

theorem connPost0_first {r : Res Replies} {w' : WorldT} {evs : List EvT} (h : ConnPost0 r w' evs) :
    allWrites evs = [] ∨ (allWrites evs).head? = some AUTHL := by
  rcases h with ⟨ha, hw⟩ | ⟨X, rfl, ha, hw, _⟩ | ⟨X, Y, rfl, ha, hw, hy, _⟩
  · rcases hw with hw | hw
    · exact Or.inl hw
    · right; rw [hw]; rfl
  · right; rw [allWrites_append, hw]; rfl
  · right; rw [allWrites_append, hw]; rfl

theorem connPost0_stop {r : Res Replies} {w' : WorldT} {evs : List EvT} (h : ConnPost0 r w' evs)
    (hn : ∀ ok, EvT.ctlTlsHandshake ok ∉ evs) : allWrites evs = [] ∨ allWrites evs = [AUTHL] := by
  rcases h with ⟨ha, hw⟩ | ⟨X, rfl, ha, hw, _⟩ | ⟨X, Y, rfl, ha, hw, hy, _⟩
  · exact hw
  · exact absurd (by simp) (hn false)
  · exact absurd (by simp) (hn true)

theorem connPost0_fail {r : Res Replies} {w' : WorldT} {evs : List EvT} (h : ConnPost0 r w' evs)
    (hm : EvT.ctlTlsHandshake false ∈ evs) :
    r = .throw ∧ allWrites evs = [AUTHL] ∧ evs.getLast? = some (EvT.ctlTlsHandshake false) := by
  rcases h with ⟨ha, hw⟩ | ⟨X, rfl, ha, hw, hr⟩ | ⟨X, Y, rfl, ha, hw, hy, _⟩
  · exact absurd hm (not_mem_allEv ha false)
  · refine ⟨hr, ?_, by simp⟩
    rw [allWrites_append, hw]; rfl
  · rcases List.mem_append.1 hm with h1 | h1
    · exact absurd h1 (not_mem_allEv ha false)
    · rcases List.mem_cons.1 h1 with h2 | h2
      · cases h2
      · exact absurd h2 (not_mem_allEv hy false)

theorem connPost0_protects {r : Res Replies} {w' : WorldT} {evs : List EvT} (h : ConnPost0 r w' evs)
    (hm : EvT.ctlTlsHandshake true ∈ evs) : w'.ctlTls = true := by
  rcases h with ⟨ha, hw⟩ | ⟨X, rfl, ha, hw, hr⟩ | ⟨X, Y, rfl, ha, hw, hy, hl⟩
  · exact absurd hm (not_mem_allEv ha true)
  · rcases List.mem_append.1 hm with h1 | h1
    · exact absurd h1 (not_mem_allEv ha true)
    · rcases List.mem_singleton.1 h1 with h2
      cases h2
  · exact hl

theorem dropEvs_writes {P : List EvT} (h : DropEvs P) :
    plainWrites P = [] ∧ allWrites P = [] ∧ ∀ b, EvT.ctlTlsHandshake b ∉ P := by
  rcases h with rfl | ⟨t, rfl⟩
  · exact ⟨rfl, rfl, fun _ h => by cases h⟩
  · refine ⟨?_, rfl, fun _ h => ?_⟩
    · cases t <;> rfl
    · simp at h

theorem connPost_plain {r : Res Replies} {w' : WorldT} {evs : List EvT} (h : ConnPost r w' evs) :
    plainWrites evs = [] ∨ plainWrites evs = [AUTHL] := by
  obtain ⟨P, rest, rfl, hp, h0⟩ := h
  rw [plainWrites_append, (dropEvs_writes hp).1, List.nil_append]
  exact connPost0_plain h0

theorem connPost_first {r : Res Replies} {w' : WorldT} {evs : List EvT} (h : ConnPost r w' evs) :
    allWrites evs = [] ∨ (allWrites evs).head? = some AUTHL := by
  obtain ⟨P, rest, rfl, hp, h0⟩ := h
  rw [allWrites_append, (dropEvs_writes hp).2.1, List.nil_append]
  exact connPost0_first h0

theorem connPost_stop {r : Res Replies} {w' : WorldT} {evs : List EvT} (h : ConnPost r w' evs)
    (hn : ∀ ok, EvT.ctlTlsHandshake ok ∉ evs) : allWrites evs = [] ∨ allWrites evs = [AUTHL] := by
  obtain ⟨P, rest, rfl, hp, h0⟩ := h
  rw [allWrites_append, (dropEvs_writes hp).2.1, List.nil_append]
  exact connPost0_stop h0 fun ok hm => hn ok (List.mem_append_right _ hm)

theorem connPost_fail {r : Res Replies} {w' : WorldT} {evs : List EvT} (h : ConnPost r w' evs)
    (hm : EvT.ctlTlsHandshake false ∈ evs) :
    r = .throw ∧ allWrites evs = [AUTHL] ∧ evs.getLast? = some (EvT.ctlTlsHandshake false) := by
  obtain ⟨P, rest, rfl, hp, h0⟩ := h
  have hm' : EvT.ctlTlsHandshake false ∈ rest := by
    rcases List.mem_append.1 hm with h1 | h1
    · exact absurd h1 ((dropEvs_writes hp).2.2 false)
    · exact h1
  obtain ⟨a, b, c⟩ := connPost0_fail h0 hm'
  refine ⟨a, ?_, ?_⟩
  · rw [allWrites_append, (dropEvs_writes hp).2.1, List.nil_append]; exact b
  · rw [List.getLast?_append, c]; rfl

theorem connPost_protects {r : Res Replies} {w' : WorldT} {evs : List EvT} (h : ConnPost r w' evs)
    (hm : EvT.ctlTlsHandshake true ∈ evs) : w'.ctlTls = true := by
  obtain ⟨P, rest, rfl, hp, h0⟩ := h
  refine connPost0_protects h0 ?_
  rcases List.mem_append.1 hm with h1 | h1
  · exact absurd h1 ((dropEvs_writes hp).2.2 true)
  · exact h1

/-! ### a session whose handshake failed: nothing is written any more -/

/-- the control socket has an SSL layer whose handshake did not complete -/
def Broken (w : WorldT) : Prop := w.ctlSsl = true ∧ w.ctlTls = false

theorem broken_iff (w : WorldT) : w.broken = true ↔ Broken w := by
  unfold WorldT.broken Broken
  cases w.ctlSsl <;> cases w.ctlTls <;> simp

/-- started in a broken session, `m` leaves it broken and records no command write -/
def AllB {α} (m : MT α) : Prop :=
  ∀ w, Broken w → SatT m w (fun _ w' evs => Broken w' ∧ allWrites evs = [])

/-- started in a broken session, `m` records no command write -/
def NoWB {α} (m : MT α) : Prop :=
  ∀ w, Broken w → SatT m w (fun _ _ evs => allWrites evs = [])

theorem allB_noWB {α} {m : MT α} (h : AllB m) : NoWB m := fun w hw => (h w hw).mono fun _ _ _ hq => hq.2

theorem allB_pure {α} (a : α) : AllB (pure a : MT α) := fun _ hw => SatT.pure ⟨hw, rfl⟩
theorem allB_throwT {α} : AllB (throwT : MT α) := fun _ hw => SatT.throwT ⟨hw, rfl⟩
theorem allB_getT : AllB getT := fun _ hw => SatT.getT ⟨hw, rfl⟩

theorem allB_modifyT {f : WorldT → WorldT}
    (hf : ∀ w, (f w).trace = w.trace ∧ (f w).ctlSsl = w.ctlSsl ∧ (f w).ctlTls = w.ctlTls) : AllB (modifyT f) :=
  fun w hw => SatT.modifyT (hf w).1 ⟨⟨(hf w).2.1.trans hw.1, (hf w).2.2.trans hw.2⟩, rfl⟩

theorem allB_emitT {e : EvT} (h : allWrites [e] = []) : AllB (emitT e) :=
  fun _ hw => SatT.emitT ⟨hw, h⟩

theorem satP_nil {α} (m : M α) (b : World) (hb : b.trace = []) : SatP m b (fun _ _ _ => True) :=
  ⟨(m b).2.trace, by rw [hb]; rfl, trivial⟩

/-- whatever the plain program: lifted in a broken session it records no command write (it stops at its first one) -/
theorem allB_lift {α} (m : M α) : AllB (lift m) := by
  intro w hw
  have hbk : w.broken = true := (broken_iff w).2 hw
  apply SatT.lift
  apply (satP_nil m _ rfl).mono
  intro r b' evs _
  refine ⟨fun pre c hb => ⟨hw, ?_⟩, fun hn _ => ⟨hw, ?_⟩, fun hn _ => ⟨hw, ?_⟩⟩
  · rw [allWrites_map, writes_append, (brk_some hb).2.1]; rfl
  · rw [allWrites_map]; exact brk_none_writes hbk hn
  · rw [allWrites_map]
    have h0 := brk_none_writes hbk hn
    obtain ⟨t, ht⟩ := uptoClose_prefix evs
    rw [ht, writes_append] at h0
    exact (List.append_eq_nil_iff.1 h0).1

theorem allB_bind {α β} {m : MT α} {f : α → MT β} (h1 : AllB m) (h2 : ∀ a, AllB (f a)) : AllB (m >>= f) := by
  intro w hw
  apply SatT.bind
  apply (h1 w hw).mono
  intro r w1 e1 ⟨hb1, he1⟩
  cases r with
  | throw => exact ⟨hb1, he1⟩
  | ok a =>
    apply (h2 a w1 hb1).mono
    intro _ w2 e2 ⟨hb2, he2⟩
    exact ⟨hb2, by rw [allWrites_append, he1, he2]; rfl⟩

theorem noWB_bind {α β} {m : MT α} {f : α → MT β} (h1 : AllB m) (h2 : ∀ a, NoWB (f a)) : NoWB (m >>= f) := by
  intro w hw
  apply SatT.bind
  apply (h1 w hw).mono
  intro r w1 e1 ⟨hb1, he1⟩
  cases r with
  | throw => exact he1
  | ok a =>
    apply (h2 a w1 hb1).mono
    intro _ w2 e2 he2
    rw [allWrites_append, he1, he2]; rfl

theorem allB_scopedT {α} {body : MT α} {cleanup : MT Unit} (h1 : AllB body) (h2 : AllB cleanup) :
    AllB (scopedT body cleanup) := by
  intro w hw
  apply SatT.scopedT
  apply (h1 w hw).mono
  intro r w1 e1 ⟨hb1, he1⟩
  apply (h2 w1 hb1).mono
  intro _ w2 e2 ⟨hb2, he2⟩
  exact ⟨hb2, by rw [allWrites_append, he1, he2]; rfl⟩

macro "allb_step" : tactic => `(tactic| first
  | exact allB_pure _
  | exact allB_throwT
  | exact allB_getT
  | exact allB_lift _
  | assumption
  | (apply allB_modifyT; intro _; exact ⟨rfl, rfl, rfl⟩)
  | (apply allB_emitT; rfl)
  | (refine allB_bind ?_ (fun _ => ?_))
  | (refine allB_scopedT ?_ ?_)
  | split
  | dsimp only)

syntax "allb" ("[" term,* "]")? : tactic
macro_rules
  | `(tactic| allb) => `(tactic| repeat allb_step)
  | `(tactic| allb [$ts,*]) => do
    let alts ← ts.getElems.mapM fun t => `(tactic| with_reducible apply $t)
    `(tactic| repeat (first $[| $alts:tactic]* | allb_step))

theorem allB_discard {α} {m : MT α} (h : AllB m) : AllB (do let _ ← m; pure ()) :=
  allB_bind h fun _ => allB_pure _

theorem pciT_b (cmd : Bytes) (rs : Replies) : AllB (processCommandIntoT cmd rs) := allB_lift _

theorem processLoginT_b (u p : Bytes) (rs : Replies) : AllB (processLoginT u p rs) := by
  unfold processLoginT
  allb [pciT_b]

theorem loginT_b (u p : Bytes) : AllB (loginT u p) := by
  unfold loginT
  allb [processLoginT_b]

theorem dataHandshake_b : AllB dataHandshake := by
  unfold dataHandshake nextHandshake
  allb

theorem dataDisconnectT_b (g : Bool) : AllB (dataDisconnectT g) := by
  unfold dataDisconnectT
  allb

theorem cleanupT_b : AllB cleanupT := by
  unfold cleanupT
  allb

theorem finishTransferT_b (rs : Replies) : AllB (finishTransferT rs) := by
  unfold finishTransferT
  allb [dataDisconnectT_b]

theorem processEpsvT_b (cmd : Bytes) (rs : Replies) : AllB (processEpsvT cmd rs) := by
  unfold processEpsvT
  allb [pciT_b, dataHandshake_b]

theorem processPasvT_b (cmd : Bytes) (rs : Replies) : AllB (processPasvT cmd rs) := by
  unfold processPasvT
  allb [pciT_b, dataHandshake_b]

theorem processActiveT_b (eprt : Bool) (cmd : Bytes) (rs : Replies) : AllB (processActiveT eprt cmd rs) := by
  unfold processActiveT
  allb [pciT_b, dataHandshake_b]

theorem createDataConnectionT_b (cmd : Bytes) (rs : Replies) : AllB (createDataConnectionT cmd rs) := by
  unfold createDataConnectionT
  allb [processEpsvT_b, processPasvT_b, processActiveT_b]

theorem downloadT_b (path : Bytes) : AllB (downloadT path) := by
  unfold downloadT
  allb [createDataConnectionT_b, cleanupT_b, finishTransferT_b]

theorem uploadT_b (verb : String) (path : Bytes) : AllB (uploadT verb path) := by
  unfold uploadT
  allb [createDataConnectionT_b, cleanupT_b, finishTransferT_b]

theorem fileListT_b (path : Option Bytes) (names : Bool) : AllB (fileListT path names) := by
  unfold fileListT
  allb [createDataConnectionT_b, cleanupT_b, dataDisconnectT_b]

/-- the close of the control connection (the answer of the peer to the close-notify is looked at afterwards) -/
theorem closeLift_b : AllB (fun w' : WorldT =>
    ((lift ctlClose) { w' with peerAnswersCloseNotify := true }).map id
      (fun x => { x with peerAnswersCloseNotify := w'.peerAnswersCloseNotify })) := by
  intro w hw
  obtain ⟨evs, h1, h2, h3⟩ := allB_lift ctlClose { w with peerAnswersCloseNotify := true } hw
  exact ⟨evs, h1, h2, h3⟩

theorem ctlCloseT_b : AllB ctlCloseT := by
  unfold ctlCloseT
  allb [closeLift_b]

/-- `disconnect` of a broken session records no command write: QUIT is not sent -/
theorem disconnectT_nw (graceful : Bool) : NoWB (disconnectT graceful) := by
  have fin : ∀ (f : WorldT → WorldT) (r : Option Reply), (∀ w, (f w).trace = w.trace) →
      NoWB (modifyT f >>= fun _ => pure r) := by
    intro f r hf w _
    apply SatT.bind; apply SatT.modifyT (hf w); dsimp only; apply SatT.pure; rfl
  unfold disconnectT
  repeat (first
    | exact fin _ _ (fun _ => rfl)
    | refine noWB_bind (by allb [ctlCloseT_b]) (fun _ => ?_)
    | split
    | dsimp only)

/-- a command / reply exchange either throws or writes its command -/
theorem processCommand_writes (cmd : Bytes) (b : World) :
    SatP (processCommand cmd) b (fun r _ evs => r = .throw ∨ writes evs ≠ []) := by
  unfold processCommand
  apply SatP.bind
  apply (ctlSend_spec cmd b).mono
  intro r b1 e1 ⟨_, hw⟩
  cases r with
  | throw => exact Or.inl rfl
  | ok u =>
    dsimp only at hw ⊢
    apply (ctlRecv_npw b1).mono
    intro _ _ e2 _
    exact Or.inr (by rw [writes_append, hw]; simp)

/-- in a broken session a lifted program that cannot complete without a command write throws -/
theorem lift_broken_throws {α} {m : M α} {w : WorldT} (hw : Broken w)
    (h : SatP m { w.base with trace := [] } (fun r _ evs => r = .throw ∨ writes evs ≠ [])) :
    (lift m w).1 = .throw := by
  obtain ⟨evs, h1, h2⟩ := h
  simp only [List.nil_append] at h1
  rw [lift_eq, h1]
  cases hb : brk w evs with
  | some x => rfl
  | none =>
    dsimp only
    have := brk_none_writes ((broken_iff w).2 hw) hb
    rcases h2 with h2 | h2
    · rw [h2]; split <;> rfl
    · exact absurd this h2

theorem bindT_throw {α β} {m : MT α} {f : α → MT β} {w : WorldT} (h : (m w).1 = .throw) :
    (m >>= f) w = (.throw, (m w).2) := by
  rw [bindT_eq]
  rcases hm : m w with ⟨r, w1⟩
  rw [hm] at h
  cases r with
  | ok a => cases h
  | throw => rfl

/-- the graceful `disconnect` of a broken session: the exchange of QUIT throws at the write, and so does the call -
    the connection is not closed and the SSL layer stays in place -/
theorem disconnectT_broken (w : WorldT) (hw : Broken w) :
    (disconnectT true w).1 = .throw ∧ Broken (disconnectT true w).2 := by
  have hq : (lift (do let c ← mkCmd "QUIT" none; processCommand c) w).1 = .throw := by
    apply lift_broken_throws hw
    apply SatP.bind
    refine ⟨[], by rw [mkCmd_eq]; simp, ?_⟩
    rw [mkCmd_eq]
    split
    · simp only [List.nil_append]; exact processCommand_writes _ _
    · exact Or.inl rfl
  have hb := (allB_lift (do let c ← mkCmd "QUIT" none; processCommand c) w hw).added.1
  have he : disconnectT true w = (Res.throw, (lift (do let c ← mkCmd "QUIT" none; processCommand c) w).2) := by
    have h1 : ((lift (do let c ← mkCmd "QUIT" none; processCommand c) >>= fun r => (pure (some r) : MT (Option Reply))) w).1
        = .throw := by rw [bindT_throw hq]
    unfold disconnectT
    dsimp only
    rw [if_pos rfl, bindT_throw h1, bindT_throw hq]
  rw [he]
  exact ⟨rfl, hb⟩

end Ftp.ClientTls.L
