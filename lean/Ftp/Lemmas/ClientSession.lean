import Ftp.Spec.Session
import Ftp.Lemmas.ClientCtl
import Ftp.Lemmas.ClientData
import Ftp.Lemmas.ClientTrace
/-
  helper lemmas for the session-level properties (C02, C06 client level, C07, C13): the bridge between the byte-level
  control channel of `Ftp.Client` and the framed view (`InStep`), as explicit run equations of `ctlSend` / `ctlRecv`.
-/
set_option linter.unusedSectionVars false
set_option linter.unusedVariables false
set_option linter.unusedSimpArgs false

namespace Ftp.Client.SessL
open Ftp Ftp.Client Ftp.Session Ftp.Props.C01 Ftp.Endpoint

/-! ### the reply of an exhausted script -/

def r500 : WfReply := ⟨500, [⟨str "500 script exhausted", true⟩]⟩

theorem r500_raw : r500.raw = str "500 script exhausted\r\n" := by decide

theorem r500_wf : r500.wf := by
  refine ⟨by decide, by decide, ?_, .inl ⟨str "script exhausted", true, by decide⟩⟩
  intro l hl
  have : l = ⟨str "500 script exhausted", true⟩ := by simpa [r500] using hl
  subst this
  exact ⟨by decide, by decide, by decide⟩

def g500 : SGroup := ⟨[r500], none⟩

/-- the group the scripted server plays for the next command -/
def nextG (gs : List SGroup) : SGroup := gs.head?.getD g500

/-! ### the framed view of the unread bytes -/

/-- `InStep` without the connection flag -/
def Sync (w : World) (q : List WfReply) : Prop :=
  Pending w.ctl w.net q ∧ w.ctl.buf.length ≤ Reader.maxLine ∧ ∀ r ∈ q, r.wf

theorem inStep_iff (w : World) (q : List WfReply) : InStep w q ↔ w.connected = true ∧ Sync w q := Iff.rfl

theorem streamOf_append (a b : List WfReply) : streamOf (a ++ b) = streamOf a ++ streamOf b := by
  simp [streamOf]

theorem streamOf_nil : streamOf [] = [] := rfl

theorem pending_push {c : Reader.Ctl} {net : Reader.Net} {q : List WfReply} (rs : List WfReply)
    (h : Pending c net q) : Pending c { net with stream := net.stream ++ streamOf rs } (q ++ rs) := by
  rcases h with h | ⟨h1, h⟩
  · left
    show c.buf ++ (net.stream ++ streamOf rs) = _
    rw [← List.append_assoc, h, streamOf_append]
  · right
    refine ⟨h1, ?_⟩
    show c.buf ++ (net.stream ++ streamOf rs) = _
    rw [← List.append_assoc, h, streamOf_append]
    rfl

/-! ### `ctlSend` -/

def headG (script : List Group) : Group :=
  match script with
  | g :: _ => g
  | [] => { raws := [str "500 script exhausted\r\n"] }

/-- the world after a command has been written -/
def sendW (cmd : Bytes) (w : World) : World :=
  { w with trace := w.trace ++ w.observers.map (fun o => Ev.obsRequest o cmd) ++ [.ctlWrite (cmd ++ CRLF)],
           script := w.script.tail,
           net := { w.net with stream := w.net.stream ++ (headG w.script).raws.flatten },
           act := match (headG w.script).act with | some a => some a | none => w.act }

theorem ctlSend_conn (cmd : Bytes) (w : World) (h : w.connected = true) : ctlSend cmd w = (.ok (), sendW cmd w) := by
  unfold ctlSend forObservers
  simp only [CtlL.bind_apply, getW, modifyW, emit]
  split
  · rename_i hn; simp [h] at hn
  · rfl

/-- the world after a write on a closed connection -/
def failW (cmd : Bytes) (w : World) : World :=
  { w with trace := w.trace ++ w.observers.map (fun o => Ev.obsRequest o cmd) ++ [.ctlWriteFail (cmd ++ CRLF)] }

theorem ctlSend_disc (cmd : Bytes) (w : World) (h : w.connected = false) : ctlSend cmd w = (.throw, failW cmd w) := by
  unfold ctlSend forObservers
  simp only [CtlL.bind_apply, getW, modifyW, emit]
  split
  · rfl
  · rename_i hn; simp [h] at hn

theorem ctlSend_back {cmd : Bytes} {w w' : World} {u : Unit} (h : ctlSend cmd w = (.ok u, w')) :
    w.connected = true ∧ w' = sendW cmd w := by
  cases hc : w.connected with
  | false => rw [ctlSend_disc cmd w hc] at h; cases h
  | true =>
    rw [ctlSend_conn cmd w hc] at h
    simp only [Prod.mk.injEq] at h
    exact ⟨rfl, h.2.symm⟩

theorem headG_enc (gs : List SGroup) : headG (gs.map SGroup.enc) = (nextG gs).enc := by
  cases gs with
  | nil => simp [headG, nextG, g500, SGroup.enc, r500_raw]
  | cons g gs => rfl

theorem enc_flatten (g : SGroup) : g.enc.raws.flatten = streamOf g.replies := rfl

theorem nextG_wf {gs : List SGroup} (h : WfScript gs) : ∀ r ∈ (nextG gs).replies, r.wf := by
  cases gs with
  | nil =>
    intro r hr
    have : r = r500 := by simpa [nextG, g500] using hr
    subst this; exact r500_wf
  | cons g gs => exact h g (List.mem_cons_self ..)

theorem wfScript_tail {gs : List SGroup} (h : WfScript gs) : WfScript gs.tail :=
  fun g hg => h g (List.mem_of_mem_tail hg)

theorem sync_sendW' {cmd : Bytes} {w : World} {q : List WfReply} {gs : List SGroup} (hs : Sync w q)
    (hsc : w.script = gs.map SGroup.enc) (hwf : ∀ r ∈ (nextG gs).replies, r.wf) :
    Sync (sendW cmd w) (q ++ (nextG gs).replies) ∧ (sendW cmd w).script = gs.tail.map SGroup.enc := by
  obtain ⟨hp, hb, hq⟩ := hs
  refine ⟨⟨?_, hb, ?_⟩, ?_⟩
  · have := pending_push (nextG gs).replies hp
    simpa only [sendW, hsc, headG_enc, enc_flatten] using this
  · intro r hr
    rcases List.mem_append.mp hr with hr | hr
    · exact hq r hr
    · exact hwf r hr
  · simp only [sendW, hsc, List.map_tail]

theorem sync_sendW {cmd : Bytes} {w : World} {q : List WfReply} {gs : List SGroup} (hs : Sync w q)
    (hsc : w.script = gs.map SGroup.enc) (hwf : WfScript gs) :
    Sync (sendW cmd w) (q ++ (nextG gs).replies) ∧ (sendW cmd w).script = gs.tail.map SGroup.enc :=
  sync_sendW' hs hsc (nextG_wf hwf)

/-! ### `ctlRecv` -/

/-- the world after a reply has been received -/
def recvW (w : World) (code : Nat) (text : Bytes) (c' : Reader.Ctl) (net' : Reader.Net) : World :=
  { w with ctl := c', net := net', connected := (if code = 421 then false else w.connected),
           trace := w.trace ++ [.ctlReadLine, .ctlReply code text] ++
             (if code = 421 then [.ctlShutdown, .ctlClose] else []) ++
             w.observers.map (fun o => Ev.obsReply o code text) }

theorem ctlRecv_reply (w : World) (code : Nat) (text : Bytes) (c' : Reader.Ctl) (net' : Reader.Net)
    (hc : w.connected = true)
    (h : Reader.recv { w.ctl with closed := false } w.net = (.reply code text, c', net')) :
    ctlRecv w = (.ok ⟨code, text⟩, recvW w code text c' net') := by
  unfold ctlRecv
  open DataL in msimp
  rw [if_neg (by simp [hc])]
  rw [h]
  by_cases h421 : code = 421
  · subst h421
    open DataL in msimp
    simp [recvW]
  · have : (code == 421) = false := by simpa using h421
    open DataL in msimp [this]
    simp [recvW, h421]

theorem ctlRecv_connected {w w' : World} {r : Reply} (h : ctlRecv w = (.ok r, w')) : w.connected = true := by
  cases hc : w.connected with
  | true => rfl
  | false =>
    unfold ctlRecv at h
    simp [CtlL.bind_apply, getW, modifyW, emit, hc, throwE] at h

theorem sync_recv_step {w : World} {x : WfReply} {q : List WfReply} (hs : Sync w (x :: q)) :
    ∃ c' net', Reader.recv { w.ctl with closed := false } w.net = (.reply x.code x.text, c', net') ∧
      Pending c' net' q ∧ c'.buf.length ≤ Reader.maxLine := by
  obtain ⟨hp, hb, hq⟩ := hs
  obtain ⟨c', net', h1, h2, h3, _, _⟩ :=
    step x q (hq x (List.mem_cons_self ..)) { w.ctl with closed := false } w.net hb hp
  exact ⟨c', net', h1, h2, h3⟩

/-- one receive step in a session whose next unread reply is `x` -/
theorem ctlRecv_sync {w : World} {x : WfReply} {q : List WfReply} (hc : w.connected = true) (hs : Sync w (x :: q)) :
    ∃ c' net', ctlRecv w = (.ok (replyOf x), recvW w x.code x.text c' net') ∧
      Sync (recvW w x.code x.text c' net') q := by
  obtain ⟨c', net', h1, h2, h3⟩ := sync_recv_step hs
  exact ⟨c', net', ctlRecv_reply w _ _ c' net' hc h1, h2, h3, fun r hr => hs.2.2 r (List.mem_cons_of_mem _ hr)⟩

theorem ctlRecv_back {w w' : World} {r : Reply} {x : WfReply} {q : List WfReply} (h : ctlRecv w = (.ok r, w'))
    (hs : Sync w (x :: q)) :
    r = replyOf x ∧ w.connected = true ∧ ∃ c' net', w' = recvW w x.code x.text c' net' ∧ Sync w' q := by
  have hc := ctlRecv_connected h
  obtain ⟨c', net', h1, h2⟩ := ctlRecv_sync hc hs
  rw [h1] at h
  simp only [Prod.mk.injEq, Res.ok.injEq] at h
  obtain ⟨rfl, rfl⟩ := h
  exact ⟨rfl, hc, c', net', rfl, h2⟩

/-! ### reply codes -/

theorem wf_code {x : WfReply} (h : x.wf) : 100 ≤ x.code ∧ x.code ≤ 599 := ⟨h.1, h.2.1⟩

theorem isNegative_replyOf {x : WfReply} (h : x.wf) : (replyOf x).isNegative = decide (400 ≤ x.code) := by
  have := wf_code h
  have hne : x.code ≠ unspecified := by unfold unspecified; omega
  have : (x.code != unspecified) = true := by simpa using hne
  simp [Reply.isNegative, replyOf, this]

theorem isPositive_replyOf {x : WfReply} (h : x.wf) : (replyOf x).isPositive = decide (x.code < 400) := by
  have := wf_code h
  have hne : x.code ≠ unspecified := by unfold unspecified; omega
  have : (x.code != unspecified) = true := by simpa using hne
  simp only [Reply.isPositive, replyOf, this, Bool.true_and]
  by_cases h4 : x.code < 400 <;> simp [h4]


/-! ### frames: what the data-connection programs leave alone -/

open CtlL

/-- events of the control channel and its observers -/
def isCtl : Ev → Bool
  | .ctlConnect _ _ | .ctlShutdown | .ctlClose | .ctlReply _ _ | .ctlWrite _ | .ctlWriteFail _ | .ctlReadLine
  | .obsConnected _ _ _ | .obsRequest _ _ | .obsReply _ _ _ => true
  | _ => false

/-- the control channel (reader state, unread bytes, script, connection flag, observers) is untouched and no control
    event is added -/
def Rdat (w w' : World) : Prop :=
  w'.ctl = w.ctl ∧ w'.net = w.net ∧ w'.script = w.script ∧ w'.connected = w.connected ∧ w'.observers = w.observers ∧
  ∃ evs, w'.trace = w.trace ++ evs ∧ ∀ e ∈ evs, isCtl e = false

instance : IsPre Rdat where
  refl w := ⟨rfl, rfl, rfl, rfl, rfl, [], by simp, by simp⟩
  trans := by
    rintro a b c ⟨a1, a2, a3, a4, a5, e1, t1, p1⟩ ⟨b1, b2, b3, b4, b5, e2, t2, p2⟩
    refine ⟨b1.trans a1, b2.trans a2, b3.trans a3, b4.trans a4, b5.trans a5, e1 ++ e2,
      by rw [t2, t1, List.append_assoc], ?_⟩
    intro e he
    rcases List.mem_append.mp he with he | he
    · exact p1 e he
    · exact p2 e he

namespace Rdat

theorem mod {f : World → World}
    (h : ∀ w, (f w).ctl = w.ctl ∧ (f w).net = w.net ∧ (f w).script = w.script ∧ (f w).connected = w.connected ∧
      (f w).observers = w.observers ∧ (f w).trace = w.trace) : Keeps Rdat (Client.modifyW f) := by
  intro w
  obtain ⟨h1, h2, h3, h4, h5, h6⟩ := h w
  exact ⟨h1, h2, h3, h4, h5, [], by simp [Client.modifyW, h6], by simp⟩

theorem emit {e : Ev} (h : isCtl e = false) : Keeps Rdat (Client.emit e) :=
  fun w => ⟨rfl, rfl, rfl, rfl, rfl, [e], rfl, by simpa using h⟩

end Rdat

section walkD
attribute [local irreducible] throwE getW modifyW emit withScope forObservers ctlSend ctlClose ctlRecv recvInto mkCmd
  processCommand processCommandInto typeCommand simple processLogin login connect logout setTransferType rename
  disconnect newDescriptor closeD destroyConn dataDisconnect addrText dataConnect dataListen dataAccept processEpsv
  processPasv processActive createDataConnection poll sinkWrite sinkFlush streamWrite streamFlush recvLoop dataRecv
  srcRead dataWrite sendLoopBin sendLoopAscii dataSend processAbort finishTransfer download upload fileList

macro "dkeeps" "[" ts:term,* "]" : tactic =>
  `(tactic| keeps_with [Rdat.mod (fun _ => ⟨rfl, rfl, rfl, rfl, rfl, rfl⟩), Rdat.emit rfl, $ts,*])

theorem closeD_dat (d : Nat) : Keeps Rdat (closeD d) := by unfold closeD; dkeeps []
theorem destroyConn_dat : Keeps Rdat destroyConn := by unfold destroyConn; dkeeps [closeD_dat _]
theorem dataDisconnect_dat (g : Bool) : Keeps Rdat (dataDisconnect g) := by unfold dataDisconnect; dkeeps [closeD_dat _]
theorem newDescriptor_dat : Keeps Rdat newDescriptor := by unfold newDescriptor; dkeeps []
theorem dataConnect_dat (a : Bytes) (p : Nat) : Keeps Rdat (dataConnect a p) := by
  unfold dataConnect; dkeeps [newDescriptor_dat, closeD_dat _]
theorem dataListen_dat : Keeps Rdat dataListen := by unfold dataListen; dkeeps [newDescriptor_dat]
theorem dataAccept_dat : Keeps Rdat dataAccept := by unfold dataAccept; dkeeps []
theorem poll_dat : Keeps Rdat poll := by unfold poll; dkeeps []
theorem sinkWrite_dat (bs : Bytes) : Keeps Rdat (sinkWrite bs) := by unfold sinkWrite; dkeeps []
theorem sinkFlush_dat : Keeps Rdat sinkFlush := by unfold sinkFlush; dkeeps []
theorem streamWrite_dat (t : TType) (prev : Bool) (b : Bytes) : Keeps Rdat (streamWrite t prev b) := by
  unfold streamWrite; dkeeps [sinkWrite_dat _]
theorem streamFlush_dat (t : TType) (prev : Bool) : Keeps Rdat (streamFlush t prev) := by
  unfold streamFlush; dkeeps [sinkWrite_dat _, sinkFlush_dat]
theorem srcRead_dat (n : Nat) : Keeps Rdat (srcRead n) := by unfold srcRead; dkeeps []
theorem dataWrite_dat (d : Nat) (b : Bytes) : Keeps Rdat (dataWrite d b) := by unfold dataWrite; dkeeps []

theorem recvLoop_dat (cb : Bool) (t : TType) (d : Nat) :
    ∀ (fuel : Nat) (payload : Bytes) (prev : Bool), Keeps Rdat (recvLoop cb t d fuel payload prev)
  | 0, _, _ => by unfold recvLoop; dkeeps []
  | fuel + 1, payload, prev => by
    have ih := recvLoop_dat cb t d fuel
    unfold recvLoop
    dkeeps [ih _ _, streamWrite_dat _ _ _, poll_dat]

theorem dataRecv_dat (cb : Bool) (t : TType) : Keeps Rdat (dataRecv cb t) := by
  unfold dataRecv
  dkeeps [recvLoop_dat _ _ _ _ _ _, streamFlush_dat _ _, poll_dat]

theorem sendLoopBin_dat (cb : Bool) (d : Nat) : ∀ (fuel : Nat), Keeps Rdat (sendLoopBin cb d fuel)
  | 0 => by unfold sendLoopBin; dkeeps []
  | fuel + 1 => by
    have ih := sendLoopBin_dat cb d fuel
    unfold sendLoopBin
    dkeeps [ih, srcRead_dat _, dataWrite_dat _ _, poll_dat]

theorem sendLoopAscii_dat (cb : Bool) (d : Nat) :
    ∀ (fuel : Nat) (st : Ascii.IState), Keeps Rdat (sendLoopAscii cb d fuel st)
  | 0, _ => by unfold sendLoopAscii; dkeeps []
  | fuel + 1, st => by
    have ih := sendLoopAscii_dat cb d fuel
    unfold sendLoopAscii
    dkeeps [ih _, dataWrite_dat _ _, poll_dat]

theorem dataSend_dat (cb : Bool) (t : TType) : Keeps Rdat (dataSend cb t) := by
  unfold dataSend
  dkeeps [sendLoopBin_dat _ _ _, sendLoopAscii_dat _ _ _ _, poll_dat]

end walkD

theorem sync_of_dat {w w' : World} {q : List WfReply} (h : Rdat w w') (hs : Sync w q) : Sync w' q := by
  obtain ⟨h1, h2, _⟩ := h
  unfold Sync at *
  rw [h1, h2]; exact hs

theorem writes_of_notCtl {evs : List Ev} (h : ∀ e ∈ evs, isCtl e = false) : writes evs = [] ∧ received evs = [] := by
  induction evs with
  | nil => exact ⟨rfl, rfl⟩
  | cons e t ih =>
    obtain ⟨i1, i2⟩ := ih (fun e he => h e (List.mem_cons_of_mem _ he))
    have he := h e (List.mem_cons_self ..)
    cases e <;> simp_all [writes, received, isCtl]


theorem ctlRecv_noreply (w : World) (rr : Reader.RecvR) (c' : Reader.Ctl) (net' : Reader.Net)
    (hc : w.connected = true) (h : Reader.recv { w.ctl with closed := false } w.net = (rr, c', net'))
    (hn : ∀ code text, rr ≠ .reply code text) :
    ctlRecv w = (.throw, { w with ctl := c', net := net', trace := w.trace ++ [.ctlReadLine] }) := by
  unfold ctlRecv
  open DataL in msimp
  rw [if_neg (by simp [hc])]
  rw [h]
  cases rr with
  | reply code text => exact absurd rfl (hn code text)
  | error => rfl
  | fuel => rfl

theorem ctlRecv_disc (w : World) (hc : w.connected = false) :
    ctlRecv w = (.throw, { w with trace := w.trace ++ [.ctlReadLine] }) := by
  unfold ctlRecv
  open DataL in msimp
  rw [if_pos (by simp [hc])]

/-! ### a disconnected client stays disconnected and writes nothing (every program but `connect`) -/

def Rd (w w' : World) : Prop :=
  w.connected = false → w'.connected = false ∧ ∃ evs, w'.trace = w.trace ++ evs ∧ writes evs = []

instance : IsPre Rd where
  refl w := fun h => ⟨h, [], by simp, rfl⟩
  trans := by
    intro a b c h1 h2 ha
    obtain ⟨hb, e1, t1, p1⟩ := h1 ha
    obtain ⟨hc, e2, t2, p2⟩ := h2 hb
    exact ⟨hc, e1 ++ e2, by rw [t2, t1, List.append_assoc], by rw [CtlL.writes_append, p1, p2]; rfl⟩

namespace Rd

theorem of_dat {α} {m : M α} (h : Keeps Rdat m) : Keeps Rd m := by
  intro w hd
  obtain ⟨_, _, _, h4, _, evs, t, p⟩ := h w
  exact ⟨h4.trans hd, evs, t, (writes_of_notCtl p).1⟩

theorem mod {f : World → World} (h1 : ∀ w, (f w).connected = w.connected) (h2 : ∀ w, (f w).trace = w.trace) :
    Keeps Rd (Client.modifyW f) :=
  fun w hd => ⟨(h1 w).trans hd, [], by simp [Client.modifyW, h2 w], rfl⟩

theorem emit {e : Ev} (h : ∀ b, e ≠ .ctlWrite b) : Keeps Rd (Client.emit e) :=
  fun w hd => ⟨hd, [e], rfl, DataL.writes_eq_nil _ (by intro x hx b; simp at hx; subst hx; exact h b)⟩

theorem obs {f : Nat → Ev} (h : ∀ o b, f o ≠ .ctlWrite b) : Keeps Rd (Client.forObservers f) :=
  fun w hd => ⟨hd, w.observers.map f, rfl, DataL.writes_eq_nil _ (by
    intro x hx b
    obtain ⟨o, _, rfl⟩ := List.mem_map.mp hx
    exact h o b)⟩

end Rd

theorem ctlSend_rd (cmd : Bytes) : Keeps Rd (ctlSend cmd) := by
  intro w hd
  rw [ctlSend_disc cmd w hd]
  refine ⟨hd, w.observers.map (fun o => Ev.obsRequest o cmd) ++ [.ctlWriteFail (cmd ++ CRLF)], by simp [failW], ?_⟩
  apply DataL.writes_eq_nil
  intro x hx b
  simp only [List.mem_append, List.mem_map, List.mem_cons, List.not_mem_nil, or_false] at hx
  rcases hx with ⟨o, _, rfl⟩ | rfl <;> simp

theorem ctlClose_rd : Keeps Rd ctlClose := by
  intro w hd
  rw [DataL.ctlClose_run]
  exact ⟨rfl, [.ctlShutdown, .ctlClose], by simp, rfl⟩

theorem ctlRecv_rd : Keeps Rd ctlRecv := by
  intro w hd
  rw [ctlRecv_disc w hd]
  exact ⟨hd, [.ctlReadLine], rfl, rfl⟩

/-! ### a connected client stays connected unless it receives 421 (every program but `disconnect`) -/

def Rc (w w' : World) : Prop :=
  ∃ evs, w'.trace = w.trace ++ evs ∧ (w.connected = true → w'.connected = true ∨ ∃ t, Ev.ctlReply 421 t ∈ evs)

instance : IsPre Rc where
  refl w := ⟨[], by simp, fun h => .inl h⟩
  trans := by
    rintro a b c ⟨e1, t1, p1⟩ ⟨e2, t2, p2⟩
    refine ⟨e1 ++ e2, by rw [t2, t1, List.append_assoc], fun ha => ?_⟩
    rcases p1 ha with hb | ⟨t, ht⟩
    · rcases p2 hb with hc | ⟨t, ht⟩
      · exact .inl hc
      · exact .inr ⟨t, List.mem_append_right _ ht⟩
    · exact .inr ⟨t, List.mem_append_left _ ht⟩

namespace Rc

theorem mod {f : World → World} (h1 : ∀ w, (f w).connected = w.connected) (h2 : ∀ w, (f w).trace = w.trace) :
    Keeps Rc (Client.modifyW f) :=
  fun w => ⟨[], by simp [Client.modifyW, h2 w], fun h => .inl ((h1 w).trans h)⟩

theorem emit (e : Ev) : Keeps Rc (Client.emit e) := fun w => ⟨[e], rfl, fun h => .inl h⟩

theorem obs (f : Nat → Ev) : Keeps Rc (Client.forObservers f) := fun w => ⟨w.observers.map f, rfl, fun h => .inl h⟩

end Rc

theorem ctlSend_rc (cmd : Bytes) : Keeps Rc (ctlSend cmd) := by
  intro w
  cases hc : w.connected with
  | false =>
    rw [ctlSend_disc cmd w hc]
    exact ⟨w.observers.map (fun o => Ev.obsRequest o cmd) ++ [.ctlWriteFail (cmd ++ CRLF)],
      by simp only [failW, List.append_assoc], fun h => by simp [hc] at h⟩
  | true =>
    rw [ctlSend_conn cmd w hc]
    exact ⟨w.observers.map (fun o => Ev.obsRequest o cmd) ++ [.ctlWrite (cmd ++ CRLF)],
      by simp only [sendW, List.append_assoc], fun _ => .inl hc⟩

theorem ctlRecv_rc : Keeps Rc ctlRecv := by
  intro w
  cases hc : w.connected with
  | false =>
    rw [ctlRecv_disc w hc]
    exact ⟨[.ctlReadLine], rfl, fun h => by simp [hc] at h⟩
  | true =>
    rcases hr : Reader.recv { w.ctl with closed := false } w.net with ⟨rr, c', net'⟩
    by_cases hn : ∀ code text, rr ≠ .reply code text
    · rw [ctlRecv_noreply w rr c' net' hc hr hn]
      exact ⟨[.ctlReadLine], rfl, fun _ => .inl hc⟩
    · have : ∃ code text, rr = .reply code text := by
        cases rr with
        | reply code text => exact ⟨code, text, rfl⟩
        | error => exact absurd (fun _ _ h => by cases h) hn
        | fuel => exact absurd (fun _ _ h => by cases h) hn
      obtain ⟨code, text, rfl⟩ := this
      rw [ctlRecv_reply w code text c' net' hc hr]
      refine ⟨[.ctlReadLine, .ctlReply code text] ++ (if code = 421 then [.ctlShutdown, .ctlClose] else []) ++
        w.observers.map (fun o => Ev.obsReply o code text), by simp only [recvW, List.append_assoc], fun _ => ?_⟩
      by_cases h421 : code = 421
      · subst h421
        exact .inr ⟨text, by simp⟩
      · exact .inl (by simp [recvW, h421, hc])

section walkC
attribute [local irreducible] throwE getW modifyW emit withScope forObservers ctlSend ctlClose ctlRecv recvInto mkCmd
  processCommand processCommandInto typeCommand simple processLogin login connect logout setTransferType rename
  disconnect newDescriptor closeD destroyConn dataDisconnect addrText dataConnect dataListen dataAccept processEpsv
  processPasv processActive createDataConnection poll sinkWrite sinkFlush streamWrite streamFlush recvLoop dataRecv
  srcRead dataWrite sendLoopBin sendLoopAscii dataSend processAbort finishTransfer download upload fileList

macro "rdkeeps" "[" ts:term,* "]" : tactic =>
  `(tactic| keeps_with [Rd.mod (fun _ => rfl) (fun _ => rfl), Rd.emit (by intro b hb; cases hb),
    Rd.obs (by intro o b hb; cases hb), ctlSend_rd _, ctlRecv_rd, ctlClose_rd, mkCmd_keeps _ _, $ts,*])

theorem recvInto_rd (rs : Replies) : Keeps Rd (recvInto rs) := by unfold recvInto; rdkeeps []
theorem processCommand_rd (c : Bytes) : Keeps Rd (processCommand c) := by unfold processCommand; rdkeeps []
theorem processCommandInto_rd (c : Bytes) (rs : Replies) : Keeps Rd (processCommandInto c rs) := by
  unfold processCommandInto; rdkeeps [recvInto_rd _]
theorem simple_rd (v : String) (a : Option Bytes) : Keeps Rd (simple v a) := by
  unfold simple; rdkeeps [processCommand_rd _]
theorem processLogin_rd (u p : Bytes) (rs : Replies) : Keeps Rd (processLogin u p rs) := by
  unfold processLogin; rdkeeps [processCommandInto_rd _ _]
theorem login_rd (u p : Bytes) : Keeps Rd (login u p) := by unfold login; rdkeeps [processLogin_rd _ _ _]
theorem logout_rd : Keeps Rd logout := by unfold logout; exact simple_rd _ _
theorem setTransferType_rd (t : TType) : Keeps Rd (setTransferType t) := by
  unfold setTransferType; rdkeeps [processCommand_rd _]
theorem rename_rd (a b : Bytes) : Keeps Rd (rename a b) := by unfold rename; rdkeeps [processCommandInto_rd _ _]
theorem disconnect_rd (g : Bool) : Keeps Rd (disconnect g) := by unfold disconnect; rdkeeps [processCommand_rd _]
theorem processEpsv_rd (c : Bytes) (rs : Replies) : Keeps Rd (processEpsv c rs) := by
  unfold processEpsv
  rdkeeps [processCommandInto_rd _ _, Rd.of_dat (dataConnect_dat _ _), Rd.of_dat (dataDisconnect_dat _)]
theorem processPasv_rd (c : Bytes) (rs : Replies) : Keeps Rd (processPasv c rs) := by
  unfold processPasv
  rdkeeps [processCommandInto_rd _ _, Rd.of_dat (dataConnect_dat _ _), Rd.of_dat (dataDisconnect_dat _)]
theorem processActive_rd (e : Bool) (c : Bytes) (rs : Replies) : Keeps Rd (processActive e c rs) := by
  unfold processActive
  rdkeeps [processCommandInto_rd _ _, Rd.of_dat dataListen_dat, Rd.of_dat dataAccept_dat]
theorem createDataConnection_rd (c : Bytes) (rs : Replies) : Keeps Rd (createDataConnection c rs) := by
  unfold createDataConnection
  rdkeeps [processEpsv_rd _ _, processPasv_rd _ _, processActive_rd _ _ _]
theorem processAbort_rd (rs : Replies) : Keeps Rd (processAbort rs) := by
  unfold processAbort; rdkeeps [processCommandInto_rd _ _, recvInto_rd _]
theorem finishTransfer_rd (cb : Bool) (rs : Replies) : Keeps Rd (finishTransfer cb rs) := by
  unfold finishTransfer
  rdkeeps [processAbort_rd _, recvInto_rd _, Rd.of_dat (dataDisconnect_dat _), Rd.of_dat poll_dat]
theorem download_rd (p : Bytes) (cb : Bool) : Keeps Rd (download p cb) := by
  unfold download
  rdkeeps [createDataConnection_rd _ _, finishTransfer_rd _ _, Rd.of_dat (dataRecv_dat _ _), Rd.of_dat destroyConn_dat]
theorem upload_rd (v : String) (p : Bytes) (cb : Bool) : Keeps Rd (upload v p cb) := by
  unfold upload
  rdkeeps [createDataConnection_rd _ _, finishTransfer_rd _ _, Rd.of_dat (dataSend_dat _ _), Rd.of_dat destroyConn_dat]
theorem fileList_rd (p : Option Bytes) (n : Bool) : Keeps Rd (fileList p n) := by
  unfold fileList
  rdkeeps [createDataConnection_rd _ _, recvInto_rd _, Rd.of_dat (dataRecv_dat _ _), Rd.of_dat destroyConn_dat,
    Rd.of_dat (dataDisconnect_dat _)]

macro "rckeeps" "[" ts:term,* "]" : tactic =>
  `(tactic| keeps_with [Rc.mod (fun _ => rfl) (fun _ => rfl), Rc.emit _, Rc.obs _, ctlSend_rc _, ctlRecv_rc,
    mkCmd_keeps _ _, $ts,*])

theorem recvInto_rc (rs : Replies) : Keeps Rc (recvInto rs) := by unfold recvInto; rckeeps []
theorem processCommandInto_rc (c : Bytes) (rs : Replies) : Keeps Rc (processCommandInto c rs) := by
  unfold processCommandInto; rckeeps [recvInto_rc _]
theorem processLogin_rc (u p : Bytes) (rs : Replies) : Keeps Rc (processLogin u p rs) := by
  unfold processLogin; rckeeps [processCommandInto_rc _ _]

end walkC

/-- every call but `connect` -/
theorem run_rd (op : Op) (hne : ∀ h p c, op ≠ .connect h p c) : Keeps Rd op.run := by
  cases op with
  | connect h p c => exact absurd rfl (hne h p c)
  | login u p => exact map_rg (R := Rd) _ (login_rd u p)
  | logout => exact map_rg (R := Rd) _ logout_rd
  | simple v a => exact map_rg (R := Rd) _ (simple_rd v a)
  | setType t => exact map_rg (R := Rd) _ (setTransferType_rd t)
  | rename a b => exact map_rg (R := Rd) _ (rename_rd a b)
  | download p cb => exact map_rg (R := Rd) _ (download_rd p cb)
  | upload v p cb => exact map_rg (R := Rd) _ (upload_rd v p cb)
  | list p n => exact map_rg (R := Rd) (fun r => Out.listing r.1 r.2) (fileList_rd p n)
  | disconnect g => exact map_rg (R := Rd) _ (disconnect_rd g)


/-! ### `connect` -/

/-- the world after the TCP connect and its announcement -/
def openW (h : Bytes) (p : Nat) (w : World) : World :=
  { w with ctl := {}, connected := true, script := w.script.tail,
           net := { w.net with stream := (match w.script with | g :: _ => g | [] => { raws := [] }).raws.flatten },
           trace := w.trace ++ (if w.connected then [.ctlClose] else []) ++ [.ctlConnect h p] ++
             w.observers.map (fun o => Ev.obsConnected o h p) }

/-- the greeting phase after the TCP connect -/
def greet : M (Reply × Replies) := do
  let (r, rs) ← recvInto Replies.empty
  if r.code == 120 then recvInto rs else pure (r, rs)

/-- ... when no connection had to be abandoned first -/
def openW0 (h : Bytes) (p : Nat) (w : World) : World :=
  { w with ctl := {}, connected := true, script := w.script.tail,
           net := { w.net with stream := (match w.script with | g :: _ => g | [] => { raws := [] }).raws.flatten },
           trace := w.trace ++ [.ctlConnect h p] ++ w.observers.map (fun o => Ev.obsConnected o h p) }

theorem connectGreet_run (h : Bytes) (p : Nat) (w : World) : connectGreet h p w = greet (openW0 h p w) := rfl

theorem connectCore_run (h : Bytes) (p : Nat) (w : World) : connectCore h p w = greet (openW h p w) := by
  unfold connectCore
  rw [CtlL.bind_apply, connectAbandon_run]
  show connectGreet h p (abandonW w) = _
  rw [connectGreet_run]; congr 1
  unfold abandonW openW openW0
  cases hc : w.connected <;> simp

theorem connectCheck_none (w : World) : connectCheck none w = (.ok (), w) := rfl

theorem recvInto_run {w w' : World} {r : Reply} (rs : Replies) (h : ctlRecv w = (.ok r, w')) :
    recvInto rs w = (.ok (r, rs.append r), w') := by
  unfold recvInto
  rw [CtlL.bind_apply, h]
  rfl

theorem sync_openW (h : Bytes) (p : Nat) (w : World) (g : SGroup) (gs : List SGroup) (hg : ∀ r ∈ g.replies, r.wf)
    (hsc : w.script = (g :: gs).map SGroup.enc) :
    Sync (openW h p w) g.replies ∧ (openW h p w).script = gs.map SGroup.enc ∧ (openW h p w).connected = true := by
  refine ⟨⟨.inl ?_, ?_, hg⟩, ?_, rfl⟩
  · simp only [openW, hsc, List.map_cons]
    rfl
  · show ([] : Bytes).length ≤ _
    simp
  · simp only [openW, hsc, List.map_cons, List.tail_cons]


/-- the end of `disconnect`: close unless a 421 already did -/
theorem disconnect_tail {α} (r : α) (w1 : World) :
    ∃ w2, (getW >>= fun w => (if w.connected = true then ctlClose else pure ()) >>= fun _ => (pure r : M α)) w1 = (.ok r, w2) ∧
      w2.connected = false ∧ w2.trace = w1.trace ++ (if w1.connected = true then [.ctlShutdown, .ctlClose] else []) := by
  cases hc : w1.connected with
  | true =>
    refine ⟨{ w1 with connected := false, trace := w1.trace ++ [.ctlShutdown] ++ [.ctlClose] }, ?_, rfl, by simp⟩
    open DataL in msimp [hc]
  | false =>
    refine ⟨w1, ?_, hc, by simp⟩
    open DataL in msimp [hc]


/-! ### one command and its reply, forwards -/

/-- the events of one command / reply turn -/
def turnEvs (w : World) (c : Bytes) (code : Nat) (text : Bytes) : List Ev :=
  w.observers.map (fun o => Ev.obsRequest o c) ++ [.ctlWrite (c ++ CRLF)] ++
    ([.ctlReadLine, .ctlReply code text] ++ (if code = 421 then [.ctlShutdown, .ctlClose] else []) ++
      w.observers.map (fun o => Ev.obsReply o code text))

/-- the world after one command / reply turn -/
def turnW (c : Bytes) (w : World) (x : WfReply) (c' : Reader.Ctl) (net' : Reader.Net) : World :=
  recvW (sendW c w) x.code x.text c' net'

theorem turnW_trace (c : Bytes) (w : World) (x : WfReply) (c' : Reader.Ctl) (net' : Reader.Net) :
    (turnW c w x c' net').trace = w.trace ++ turnEvs w c x.code x.text := by
  simp [turnW, recvW, sendW, turnEvs]

theorem turnEvs_ctl (w : World) (c : Bytes) (code : Nat) (text : Bytes) : ∀ e ∈ turnEvs w c code text, isCtl e = true := by
  intro e he
  simp only [turnEvs, List.mem_append, List.mem_map, List.mem_cons, List.not_mem_nil, or_false] at he
  rcases he with (⟨o, _, rfl⟩ | rfl) | ((rfl | rfl) | he) | ⟨o, _, rfl⟩ <;> try rfl
  split at he
  · simp only [List.mem_cons, List.not_mem_nil, or_false] at he
    rcases he with rfl | rfl <;> rfl
  · cases he

theorem writes_turnEvs (w : World) (c : Bytes) (code : Nat) (text : Bytes) :
    writes (turnEvs w c code text) = [c ++ CRLF] ∧ received (turnEvs w c code text) = [⟨code, text⟩] := by
  have ho1 : writes (w.observers.map (fun o => Ev.obsRequest o c)) = [] ∧
      received (w.observers.map (fun o => Ev.obsRequest o c)) = [] := by
    induction w.observers <;> simp_all [writes, received]
  have ho2 : writes (w.observers.map (fun o => Ev.obsReply o code text)) = [] ∧
      received (w.observers.map (fun o => Ev.obsReply o code text)) = [] := by
    induction w.observers <;> simp_all [writes, received]
  simp only [turnEvs, CtlL.writes_append, CtlL.received_append, ho1.1, ho1.2, ho2.1, ho2.2]
  split <;> exact ⟨rfl, rfl⟩

theorem processCommandInto_run {c : Bytes} (rs : Replies) {w w' : World} {r : Reply} (hc : w.connected = true)
    (h : ctlRecv (sendW c w) = (.ok r, w')) : processCommandInto c rs w = (.ok (r, rs.append r), w') := by
  unfold processCommandInto
  rw [CtlL.bind_apply, ctlSend_conn c w hc]
  exact recvInto_run rs h

/-- one turn in a session whose next unread reply (after the group the command triggers) is `x` -/
theorem turn_run {w : World} {q : List WfReply} {gs : List SGroup} (c : Bytes) (rs : Replies)
    (hc : w.connected = true) (hs : Sync w q) (hsc : w.script = gs.map SGroup.enc)
    (hwf : ∀ r ∈ (nextG gs).replies, r.wf) {x : WfReply} {q' : List WfReply} (hq : q ++ (nextG gs).replies = x :: q') :
    ∃ c' net', processCommandInto c rs w = (.ok (replyOf x, rs.append (replyOf x)), turnW c w x c' net') ∧
      Sync (turnW c w x c' net') q' ∧ (turnW c w x c' net').script = gs.tail.map SGroup.enc ∧ x.wf := by
  obtain ⟨hs1, hsc1⟩ := sync_sendW' (cmd := c) hs hsc hwf
  rw [hq] at hs1
  obtain ⟨c', net', h1, h2⟩ := ctlRecv_sync (w := sendW c w) hc hs1
  exact ⟨c', net', processCommandInto_run rs hc h1, h2, hsc1, hs1.2.2 x (List.mem_cons_self ..)⟩

theorem processCommand_run {c : Bytes} {w w' : World} {r : Reply} (hc : w.connected = true)
    (h : ctlRecv (sendW c w) = (.ok r, w')) : processCommand c w = (.ok r, w') := by
  unfold processCommand
  rw [CtlL.bind_apply, ctlSend_conn c w hc]
  exact h

/-! ### the data-connection primitives, forwards -/

/-- the world after a successful `dataConnect` -/
def dcW (addr : Bytes) (port : Nat) (w : World) : World :=
  { w with nextD := w.nextD + 1, connectOks := w.connectOks.tail, conn := some { sock := some w.nextD },
           trace := w.trace ++ [.dataSocket w.nextD, .dataConnect w.nextD addr port true] }

theorem dataConnect_ok (addr : Bytes) (port : Nat) (w : World) (h : w.connectOks.head?.getD false = true) :
    dataConnect addr port w = (.ok (), dcW addr port w) := by
  unfold dataConnect newDescriptor
  open DataL in msimp [h]
  simp [dcW]

theorem dataConnect_fail (addr : Bytes) (port : Nat) (w : World) (h : w.connectOks.head?.getD false = false) :
    dataConnect addr port w = (.throw,
      { w with nextD := w.nextD + 1, connectOks := w.connectOks.tail, closeFails := w.closeFails.tail,
               trace := w.trace ++ [.dataSocket w.nextD, .dataConnect w.nextD addr port false, .dataClose w.nextD] }) := by
  unfold dataConnect newDescriptor
  open DataL in msimp [h, DataL.closeD_bind]
  simp

/-- the world after `dataListen` -/
def listenW (w : World) : World :=
  { w with nextD := w.nextD + 1, listenPorts := w.listenPorts.tail, conn := some { acc := some w.nextD },
           trace := w.trace ++ [.dataSocket w.nextD, .dataBind w.nextD (addrText w) 0 (w.listenPorts.head?.getD 0),
             .dataListen w.nextD] }

theorem dataListen_run (w : World) : dataListen w = (.ok (w.listenPorts.head?.getD 0), listenW w) := by
  unfold dataListen newDescriptor
  open DataL in msimp
  simp [listenW, addrText]

/-! ### control programs under an arbitrary predicate on the added events -/

section walkP
attribute [local irreducible] throwE getW modifyW emit withScope forObservers ctlSend ctlClose ctlRecv recvInto mkCmd
  processCommand processCommandInto typeCommand simple processLogin login connect logout setTransferType rename
  disconnect newDescriptor closeD destroyConn dataDisconnect addrText dataConnect dataListen dataAccept processEpsv
  processPasv processActive createDataConnection poll sinkWrite sinkFlush streamWrite streamFlush recvLoop dataRecv
  srcRead dataWrite sendLoopBin sendLoopAscii dataSend processAbort finishTransfer download upload fileList

variable {P : Ev → Prop}

theorem ctlSend_p (h : ∀ e, isCtl e = true → P e) (cmd : Bytes) : Keeps (Rg P) (ctlSend cmd) := by
  unfold ctlSend; keeps_with [Rg.emit (h _ rfl), Rg.forObservers (fun _ => h _ rfl)]
theorem ctlClose_p (h : ∀ e, isCtl e = true → P e) : Keeps (Rg P) ctlClose := by
  unfold ctlClose; keeps_with [Rg.emit (h _ rfl)]
theorem ctlRecv_p (h : ∀ e, isCtl e = true → P e) : Keeps (Rg P) ctlRecv := by
  unfold ctlRecv; keeps_with [Rg.emit (h _ rfl), Rg.forObservers (fun _ => h _ rfl), ctlClose_p h]
theorem recvInto_p (h : ∀ e, isCtl e = true → P e) (rs : Replies) : Keeps (Rg P) (recvInto rs) := by
  unfold recvInto; keeps_with [ctlRecv_p h]
theorem processCommandInto_p (h : ∀ e, isCtl e = true → P e) (c : Bytes) (rs : Replies) :
    Keeps (Rg P) (processCommandInto c rs) := by
  unfold processCommandInto; keeps_with [ctlSend_p h _, recvInto_p h _]

end walkP


/-! ### events that open a data descriptor or connect it -/

def isOpenEv : Ev → Bool
  | .dataSocket _ | .dataConnect _ _ _ _ | .dataAccept _ _ => true
  | _ => false

abbrev Pn : Ev → Prop := fun e => isOpenEv e = false

theorem pn_of_ctl (e : Ev) (h : isCtl e = true) : Pn e := by
  cases e <;> first | rfl | simp [isCtl] at h

def isAccEv : Ev → Bool
  | .dataAccept _ _ => true
  | _ => false

abbrev Pa : Ev → Prop := fun e => isAccEv e = false

theorem pa_of_ctl (e : Ev) (h : isCtl e = true) : Pa e := by
  cases e <;> first | rfl | simp [isCtl] at h

/-- what follows the connect in the passive set-up -/
def passiveRest (cmd : Bytes) (rs : Replies) : M (Bool × Replies) := do
  let (r, rs) ← processCommandInto cmd rs
  if r.isNegative then
    dataDisconnect true
    pure (false, rs)
  else pure (true, rs)

section walkN
attribute [local irreducible] throwE getW modifyW emit withScope forObservers ctlSend ctlClose ctlRecv recvInto mkCmd
  processCommand processCommandInto closeD dataDisconnect newDescriptor dataListen dataAccept

theorem closeD_pn (d : Nat) : Keeps (Rg Pn) (closeD d) := by unfold closeD; keeps
theorem dataDisconnect_pn (g : Bool) : Keeps (Rg Pn) (dataDisconnect g) := by
  unfold dataDisconnect; keeps_with [closeD_pn _]
theorem passiveRest_pn (cmd : Bytes) (rs : Replies) : Keeps (Rg Pn) (passiveRest cmd rs) := by
  unfold passiveRest; keeps_with [processCommandInto_p pn_of_ctl _ _, dataDisconnect_pn _]
theorem newDescriptor_pa : Keeps (Rg Pa) newDescriptor := by unfold newDescriptor; keeps
theorem dataListen_pa : Keeps (Rg Pa) dataListen := by unfold dataListen; keeps_with [newDescriptor_pa]

end walkN


/-! ### the active set-up -/

/-- what follows the advertisement (EPRT / PORT written) in the active set-up -/
def activeRest (cmd : Bytes) (rs : Replies) : M (Bool × Replies) := do
  let (r, rs) ← recvInto rs
  if r.isNegative then pure (false, rs)
  else
    let (r, rs) ← processCommandInto cmd rs
    if r.isNegative then pure (false, rs)
    else
      dataAccept
      pure (true, rs)

/-- the line the active set-up advertises -/
def activeLine (eprt : Bool) (w : World) : Option Bytes :=
  if eprt then some (fmtEprt (if w.v6 then .v6 else .v4) (addrText w) (w.listenPorts.head?.getD 0))
  else fmtPort (if w.v6 then .v6 else .v4) (addrText w) (w.listenPorts.head?.getD 0)

theorem processActive_run (eprt : Bool) (cmd : Bytes) (rs : Replies) (w : World) (c : Bytes)
    (hc : w.connected = true) (hl : activeLine eprt w = some c) :
    processActive eprt cmd rs w = activeRest cmd rs (sendW c (listenW w)) := by
  unfold processActive activeRest processCommandInto
  rw [CtlL.bind_apply, dataListen_run]
  have hc' : (listenW w).connected = true := hc
  cases eprt with
  | true =>
    simp only [activeLine, if_true, Option.some.injEq] at hl
    subst hl
    open DataL in msimp
    rw [DataL.bind_ok (ctlSend_conn _ _ hc')]
    rfl
  | false =>
    simp only [activeLine, Bool.false_eq_true, if_false] at hl
    have hl' : fmtPort (if (listenW w).v6 = true then Family.v6 else Family.v4) (addrText (listenW w))
        (w.listenPorts.head?.getD 0) = some c := hl
    open DataL in msimp [hl']
    rw [DataL.bind_ok (ctlSend_conn _ _ hc')]

theorem processActive_refused (cmd : Bytes) (rs : Replies) (w : World) (hl : activeLine false w = none) :
    processActive false cmd rs w = (.throw, listenW w) := by
  unfold processActive
  rw [CtlL.bind_apply, dataListen_run]
  simp only [activeLine, Bool.false_eq_true, if_false] at hl
  have hl' : fmtPort (if (listenW w).v6 = true then Family.v6 else Family.v4) (addrText (listenW w))
      (w.listenPorts.head?.getD 0) = none := hl
  open DataL in msimp [hl']

section walkA
attribute [local irreducible] throwE getW modifyW emit withScope forObservers ctlSend ctlClose ctlRecv recvInto mkCmd
  processCommand processCommandInto closeD dataDisconnect newDescriptor dataListen dataAccept

theorem activeRest_t (cmd : Bytes) (rs : Replies) : Keeps (Rg (fun _ => True)) (activeRest cmd rs) := by
  unfold activeRest
  keeps_with [processCommandInto_p (fun _ _ => trivial) _ _, recvInto_p (fun _ _ => trivial) _,
    Rg.mono dataAccept_rg (fun _ _ => trivial)]

end walkA


/-! ### the set-up of the data connection against a refusing server -/

theorem createDataConnection_eq (cmd : Bytes) (rs : Replies) (w : World) :
    createDataConnection cmd rs w = match w.mode, w.rfc with
      | .passive, true => processEpsv cmd rs w
      | .passive, false => processPasv cmd rs w
      | .active, b => processActive b cmd rs w := by
  show (match w.mode, w.rfc with
      | .passive, true => processEpsv cmd rs
      | .passive, false => processPasv cmd rs
      | .active, true => processActive true cmd rs
      | .active, false => processActive false cmd rs) w = _
  cases w.mode <;> cases w.rfc <;> rfl

theorem nextG_cons_wf {x : WfReply} {a : Option DataAct} {gs : List SGroup} (hx : x.wf) :
    ∀ r ∈ (nextG (⟨[x], a⟩ :: gs)).replies, r.wf := by
  intro r hr
  simp only [nextG, List.head?_cons, Option.getD_some, List.mem_singleton] at hr
  subst hr; exact hx

theorem neg_of_ge {x : WfReply} (hx : x.wf) (h : 400 ≤ x.code) : (replyOf x).isNegative = true := by
  rw [isNegative_replyOf hx]; simpa using h

theorem neg_of_lt {x : WfReply} (hx : x.wf) (h : x.code < 400) : (replyOf x).isNegative = false := by
  rw [isNegative_replyOf hx]; simp; omega

theorem turnW_connected (c : Bytes) (w : World) (x : WfReply) (c' : Reader.Ctl) (net' : Reader.Net)
    (hc : w.connected = true) (h : x.code ≠ 421) : (turnW c w x c' net').connected = true := by
  simp [turnW, recvW, sendW, h, hc]

/-- the passive set-up commands: the first command is refused -/
theorem passive_refused (verb : String) (k : Reply × Replies → M (Bool × Replies)) (rs : Replies) (w : World)
    (s : WfReply) (a : Option DataAct) (rest : List SGroup)
    (hstep : InStep w []) (hs : s.wf) (hneg : 400 ≤ s.code) (hsc : w.script = (⟨[s], a⟩ :: rest).map SGroup.enc)
    (hk : ∀ x w', (x.1.isNegative = true) → k x w' = (.ok (false, x.2), w')) :
    ∃ w1, (mkCmd verb none >>= fun c => processCommandInto c rs >>= k) w = (.ok (false, rs.append (replyOf s)), w1) ∧
      Sync w1 [] ∧ (s.code ≠ 421 → w1.connected = true) ∧ w1.script = rest.map SGroup.enc := by
  obtain ⟨hconn, hsync⟩ := hstep
  obtain ⟨c', net', h1, h2, h3, _⟩ := turn_run (x := s) (q' := []) (str verb) rs hconn hsync hsc (nextG_cons_wf hs) rfl
  refine ⟨turnW (str verb) w s c' net', ?_, h2, turnW_connected _ _ _ _ _ hconn, h3⟩
  have hmk : mkCmd verb none = pure (str verb) := rfl
  rw [hmk]
  open DataL in msimp [DataL.bind_ok h1]
  exact hk _ _ (neg_of_ge hs hneg)

theorem processEpsv_refused (cmd : Bytes) (rs : Replies) (w : World) (s : WfReply) (a : Option DataAct)
    (rest : List SGroup) (hstep : InStep w []) (hs : s.wf) (hneg : 400 ≤ s.code)
    (hsc : w.script = (⟨[s], a⟩ :: rest).map SGroup.enc) :
    ∃ w1, processEpsv cmd rs w = (.ok (false, rs.append (replyOf s)), w1) ∧
      Sync w1 [] ∧ (s.code ≠ 421 → w1.connected = true) ∧ w1.script = rest.map SGroup.enc := by
  unfold processEpsv
  refine passive_refused "EPSV" _ rs w s a rest hstep hs hneg hsc ?_
  rintro ⟨r, rs'⟩ w' hn
  simp only at hn
  simp only [hn, if_true]
  rfl

theorem processPasv_refused (cmd : Bytes) (rs : Replies) (w : World) (s : WfReply) (a : Option DataAct)
    (rest : List SGroup) (hstep : InStep w []) (hs : s.wf) (hneg : 400 ≤ s.code)
    (hsc : w.script = (⟨[s], a⟩ :: rest).map SGroup.enc) :
    ∃ w1, processPasv cmd rs w = (.ok (false, rs.append (replyOf s)), w1) ∧
      Sync w1 [] ∧ (s.code ≠ 421 → w1.connected = true) ∧ w1.script = rest.map SGroup.enc := by
  unfold processPasv
  refine passive_refused "PASV" _ rs w s a rest hstep hs hneg hsc ?_
  rintro ⟨r, rs'⟩ w' hn
  simp only at hn
  simp only [hn, if_true]
  rfl


/-- the world after a graceful `dataDisconnect` of a connected socket -/
def ddW (d : Nat) (w : World) : World :=
  { w with closeFails := w.closeFails.tail, conn := some { sock := none, acc := none },
           trace := w.trace ++ [.dataShutdown d, .dataClose d] }

theorem dataDisconnect_sock (w : World) (d : Nat) (hconn : w.conn = some { sock := some d, acc := none })
    (hcf : w.closeFails.head?.getD false = false) : dataDisconnect true w = (.ok (), ddW d w) := by
  unfold dataDisconnect
  open DataL in msimp [hconn, DataL.closeD_bind, hcf]
  simp [ddW]

/-- the transfer command is refused after a passive set-up -/
theorem passiveRest_refused (cmd : Bytes) (rs : Replies) (w3 : World) (m : WfReply) (a : Option DataAct)
    (gs : List SGroup) (d : Nat) (hc : w3.connected = true) (hs : Sync w3 [])
    (hsc : w3.script = (⟨[m], a⟩ :: gs).map SGroup.enc) (hm : m.wf) (hneg : 400 ≤ m.code)
    (hconn : w3.conn = some { sock := some d, acc := none }) (hcf : w3.closeFails.head?.getD false = false) :
    ∃ w5, passiveRest cmd rs w3 = (.ok (false, rs.append (replyOf m)), w5) ∧ Sync w5 [] ∧
      (m.code ≠ 421 → w5.connected = true) := by
  obtain ⟨c', net', h1, h2, h3, _⟩ := turn_run (x := m) (q' := []) cmd rs hc hs hsc (nextG_cons_wf hm) rfl
  have hd := dataDisconnect_sock (turnW cmd w3 m c' net') d hconn hcf
  refine ⟨ddW d (turnW cmd w3 m c' net'), ?_, ?_, ?_⟩
  · unfold passiveRest
    open DataL in msimp [DataL.bind_ok h1, neg_of_ge hm hneg, DataL.bind_ok hd]
  · exact h2
  · intro h
    show (turnW cmd w3 m c' net').connected = true
    exact turnW_connected _ _ _ _ _ hc h

/-- the passive set-up up to the transfer command, when the set-up command is accepted and the connect succeeds -/
theorem passive_accepted (verb : String) (k : Reply × Replies → M (Bool × Replies)) (rs : Replies) (w : World)
    (s : WfReply) (a : Option DataAct) (rest : List SGroup) (addr : World → Bytes) (port : Nat) (cmd : Bytes)
    (hstep : InStep w []) (hs : s.wf) (hacc : s.code < 400) (hsc : w.script = (⟨[s], a⟩ :: rest).map SGroup.enc)
    (hok : w.connectOks.head?.getD false = true)
    (hk : ∀ rs' w', k (replyOf s, rs') w' = (dataConnect (addr w') port >>= fun _ => passiveRest cmd rs') w') :
    ∃ w3, (mkCmd verb none >>= fun c => processCommandInto c rs >>= k) w = passiveRest cmd (rs.append (replyOf s)) w3 ∧
      w3.connected = true ∧ Sync w3 [] ∧ w3.script = rest.map SGroup.enc ∧
      w3.conn = some { sock := some w.nextD, acc := none } ∧ w3.closeFails = w.closeFails := by
  obtain ⟨hconn, hsync⟩ := hstep
  obtain ⟨c', net', h1, h2, h3, _⟩ := turn_run (x := s) (q' := []) (str verb) rs hconn hsync hsc (nextG_cons_wf hs) rfl
  have hdc := dataConnect_ok (addr (turnW (str verb) w s c' net')) port (turnW (str verb) w s c' net') hok
  refine ⟨dcW (addr (turnW (str verb) w s c' net')) port (turnW (str verb) w s c' net'), ?_, ?_, ?_, ?_, rfl, rfl⟩
  · have hmk : mkCmd verb none = pure (str verb) := rfl
    rw [hmk]
    open DataL in msimp [DataL.bind_ok h1, hk]
    rw [DataL.bind_ok hdc]
  · show (turnW (str verb) w s c' net').connected = true
    exact turnW_connected _ _ _ _ _ hconn (by omega)
  · exact h2
  · exact h3

theorem processEpsv_accepted (cmd : Bytes) (rs : Replies) (w : World) (s : WfReply) (a : Option DataAct)
    (rest : List SGroup) (port : Nat) (hstep : InStep w []) (hs : s.wf) (hacc : s.code < 400)
    (hsc : w.script = (⟨[s], a⟩ :: rest).map SGroup.enc) (hok : w.connectOks.head?.getD false = true)
    (hport : parseEpsv s.text = some port) :
    ∃ w3, processEpsv cmd rs w = passiveRest cmd (rs.append (replyOf s)) w3 ∧
      w3.connected = true ∧ Sync w3 [] ∧ w3.script = rest.map SGroup.enc ∧
      w3.conn = some { sock := some w.nextD, acc := none } ∧ w3.closeFails = w.closeFails := by
  unfold processEpsv
  refine passive_accepted "EPSV" _ rs w s a rest addrText port cmd hstep hs hacc hsc hok ?_
  intro rs' w'
  have hp : parseEpsv (replyOf s).text = some port := hport
  unfold passiveRest
  open DataL in msimp [neg_of_lt hs hacc, hp]

theorem processPasv_accepted (cmd : Bytes) (rs : Replies) (w : World) (s : WfReply) (a : Option DataAct)
    (rest : List SGroup) (ip : Bytes) (port : Nat) (hstep : InStep w []) (hs : s.wf) (hacc : s.code < 400)
    (hsc : w.script = (⟨[s], a⟩ :: rest).map SGroup.enc) (hok : w.connectOks.head?.getD false = true)
    (hport : parsePasv s.text = some (ip, port)) :
    ∃ w3, processPasv cmd rs w = passiveRest cmd (rs.append (replyOf s)) w3 ∧
      w3.connected = true ∧ Sync w3 [] ∧ w3.script = rest.map SGroup.enc ∧
      w3.conn = some { sock := some w.nextD, acc := none } ∧ w3.closeFails = w.closeFails := by
  unfold processPasv
  refine passive_accepted "PASV" _ rs w s a rest (fun _ => ip) port cmd hstep hs hacc hsc hok ?_
  intro rs' w'
  have hp : parsePasv (replyOf s).text = some (ip, port) := hport
  unfold passiveRest
  open DataL in msimp [neg_of_lt hs hacc, hp]

/-! the active set-up -/

theorem activeLine_some (eprt : Bool) (w : World) (h : eprt = false → w.v6 = false) : ∃ c, activeLine eprt w = some c := by
  cases eprt with
  | true => exact ⟨_, rfl⟩
  | false => simp only [activeLine, h rfl, Bool.false_eq_true, if_false]; exact ⟨_, rfl⟩

theorem processActive_start (eprt : Bool) (cmd : Bytes) (rs : Replies) (w : World) (s : WfReply) (a : Option DataAct)
    (rest : List SGroup) (hstep : InStep w []) (hs : s.wf) (hsc : w.script = (⟨[s], a⟩ :: rest).map SGroup.enc)
    (hv6 : eprt = false → w.v6 = false) :
    ∃ w1, processActive eprt cmd rs w = activeRest cmd rs w1 ∧ w1.connected = true ∧ Sync w1 [s] ∧
      w1.script = rest.map SGroup.enc := by
  obtain ⟨hconn, hsync⟩ := hstep
  obtain ⟨c, hl⟩ := activeLine_some eprt w hv6
  have hsl : Sync (listenW w) [] := hsync
  obtain ⟨h1, h2⟩ := sync_sendW' (cmd := c) (w := listenW w) (gs := ⟨[s], a⟩ :: rest) hsl hsc (nextG_cons_wf hs)
  exact ⟨sendW c (listenW w), processActive_run eprt cmd rs w c hconn hl, hconn, h1, h2⟩

theorem activeRest_refused1 (cmd : Bytes) (rs : Replies) (w1 : World) (s : WfReply) (hc : w1.connected = true)
    (hs : Sync w1 [s]) (hneg : 400 ≤ s.code) :
    ∃ w2, activeRest cmd rs w1 = (.ok (false, rs.append (replyOf s)), w2) ∧ Sync w2 [] ∧
      (s.code ≠ 421 → w2.connected = true) ∧ w2.script = w1.script := by
  obtain ⟨c', net', h1, h2⟩ := ctlRecv_sync hc hs
  have hwf := hs.2.2 s (List.mem_cons_self ..)
  refine ⟨recvW w1 s.code s.text c' net', ?_, h2, ?_, rfl⟩
  · unfold activeRest
    open DataL in msimp [DataL.bind_ok (recvInto_run rs h1), neg_of_ge hwf hneg]
  · intro h; simp [recvW, h, hc]

theorem activeRest_refused2 (cmd : Bytes) (rs : Replies) (w1 : World) (s m : WfReply) (a : Option DataAct)
    (gs : List SGroup) (hc : w1.connected = true) (hs : Sync w1 [s]) (hacc : s.code < 400)
    (hsc : w1.script = (⟨[m], a⟩ :: gs).map SGroup.enc) (hm : m.wf) (hneg : 400 ≤ m.code) :
    ∃ w2, activeRest cmd rs w1 = (.ok (false, (rs.append (replyOf s)).append (replyOf m)), w2) ∧ Sync w2 [] ∧
      (m.code ≠ 421 → w2.connected = true) := by
  obtain ⟨c', net', h1, h2⟩ := ctlRecv_sync hc hs
  have hwf := hs.2.2 s (List.mem_cons_self ..)
  have hc2 : (recvW w1 s.code s.text c' net').connected = true := by
    have : s.code ≠ 421 := by omega
    simp [recvW, this, hc]
  obtain ⟨c'', net'', g1, g2, g3, _⟩ := turn_run (x := m) (q' := []) cmd (rs.append (replyOf s)) hc2 h2
    (gs := ⟨[m], a⟩ :: gs) hsc (nextG_cons_wf hm) rfl
  refine ⟨turnW cmd (recvW w1 s.code s.text c' net') m c'' net'', ?_, g2, turnW_connected _ _ _ _ _ hc2⟩
  unfold activeRest
  open DataL in msimp [DataL.bind_ok (recvInto_run rs h1), neg_of_lt hwf hacc, DataL.bind_ok g1, neg_of_ge hm hneg]


/-! ### setting up the data connection moves no payload -/

abbrev Pnd : Ev → Prop := fun e => isData e = false

theorem pnd_of_ctl (e : Ev) (h : isCtl e = true) : Pnd e := by
  cases e <;> first | rfl | simp [isCtl] at h

section walkND
attribute [local irreducible] throwE getW modifyW emit withScope forObservers ctlSend ctlClose ctlRecv recvInto mkCmd
  processCommand processCommandInto closeD dataDisconnect newDescriptor dataListen dataAccept dataConnect destroyConn
  processEpsv processPasv processActive createDataConnection addrText

theorem closeD_nd (d : Nat) : Keeps (Rg Pnd) (closeD d) := by unfold closeD; keeps
theorem newDescriptor_nd : Keeps (Rg Pnd) newDescriptor := by unfold newDescriptor; keeps
theorem dataConnect_nd (a : Bytes) (p : Nat) : Keeps (Rg Pnd) (dataConnect a p) := by
  unfold dataConnect; keeps_with [newDescriptor_nd, closeD_nd _]
theorem dataListen_nd : Keeps (Rg Pnd) dataListen := by unfold dataListen; keeps_with [newDescriptor_nd]
theorem dataAccept_nd : Keeps (Rg Pnd) dataAccept := by unfold dataAccept; keeps
theorem dataDisconnect_nd (g : Bool) : Keeps (Rg Pnd) (dataDisconnect g) := by
  unfold dataDisconnect; keeps_with [closeD_nd _]
theorem destroyConn_nd : Keeps (Rg Pnd) destroyConn := by unfold destroyConn; keeps_with [closeD_nd _]
theorem processEpsv_nd (c : Bytes) (rs : Replies) : Keeps (Rg Pnd) (processEpsv c rs) := by
  unfold processEpsv
  keeps_with [processCommandInto_p pnd_of_ctl _ _, mkCmd_keeps _ _, dataConnect_nd _ _, dataDisconnect_nd _]
theorem processPasv_nd (c : Bytes) (rs : Replies) : Keeps (Rg Pnd) (processPasv c rs) := by
  unfold processPasv
  keeps_with [processCommandInto_p pnd_of_ctl _ _, mkCmd_keeps _ _, dataConnect_nd _ _, dataDisconnect_nd _]
theorem processActive_nd (e : Bool) (c : Bytes) (rs : Replies) : Keeps (Rg Pnd) (processActive e c rs) := by
  unfold processActive
  keeps_with [processCommandInto_p pnd_of_ctl _ _, dataListen_nd, dataAccept_nd]
theorem createDataConnection_nd (c : Bytes) (rs : Replies) : Keeps (Rg Pnd) (createDataConnection c rs) := by
  unfold createDataConnection
  keeps_with [processEpsv_nd _ _, processPasv_nd _ _, processActive_nd _ _ _]

end walkND

theorem destroyConn_fst (w : World) : (destroyConn w).1 = .ok () := by
  unfold destroyConn
  rcases hc : w.conn with _ | ⟨sock, acc⟩
  · open DataL in msimp [hc]
  · rcases sock with _ | s <;> rcases acc with _ | a <;> (open DataL in msimp [hc, DataL.closeD_bind])

theorem destroyConn_ok (w : World) : destroyConn w = (.ok (), (destroyConn w).2) := by
  have := destroyConn_fst w
  rcases h : destroyConn w with ⟨r, w2⟩
  rw [h] at this
  simp only at this
  rw [this]


/-! ### nothing to read: a receive step on an empty queue fails -/

open Ftp.Reader in
theorem readLine_nil (net : Net) (hs : net.stream = []) :
    ∃ r net', readLine [] net = (r, [], net') ∧ (r = .eof ∨ r = .err) ∧ net'.stream = [] := by
  unfold readLine
  rw [hs]
  simp only [List.length_nil, readLineF, matchEol, hs]
  have : ¬ (0 ≥ maxLine) := by simp [maxLine]
  rw [if_neg this]
  cases net.fin <;> exact ⟨_, _, rfl, by simp, rfl⟩

open Ftp.Reader in
theorem readLine_lf (net : Net) : readLine [LF] net = (.line [LF], [], net) := by
  unfold readLine
  simp [readLineF, matchEol]

open Ftp.Reader in
theorem readLine_nil_lf (net : Net) (hs : net.stream = [LF]) :
    ∃ net', readLine [] net = (.line [LF], [], net') ∧ net'.stream = [] := by
  unfold readLine
  rw [hs]
  show ∃ net', readLineF (1 + 1) [] net = _ ∧ _
  rw [readLineF_succ]
  have hpos := gotOf_pos [] net (by simp [maxLine])
  obtain ⟨n, hn⟩ : ∃ n, gotOf [] net = n + 1 := ⟨gotOf [] net - 1, by omega⟩
  have : ¬ (([] : Bytes).length ≥ maxLine) := by simp [maxLine]
  simp only [matchEol, this, if_false, hs, hn, List.take_succ_cons, List.take_nil, List.nil_append,
    List.drop_succ_cons, List.drop_nil]
  rw [readLineF_succ]
  simp [matchEol, LF]

open Ftp.Reader in
theorem recv_nothing (c : Ctl) (net : Net) (h : Pending c net []) : ∀ code text, (recv c net).1 ≠ .reply code text := by
  intro code text
  rcases h with h | ⟨hsk, h⟩
  · simp only [streamOf_nil, List.append_eq_nil_iff] at h
    obtain ⟨hb, hs⟩ := h
    obtain ⟨r, net', h1, h2, _⟩ := readLine_nil net hs
    rw [recv_eq, hb, h1]
    rcases h2 with rfl | rfl <;> simp
  · simp only [streamOf_nil] at h
    rcases hb : c.buf with _ | ⟨b, t⟩
    · rw [hb, List.nil_append] at h
      obtain ⟨net1, h1, hs1⟩ := readLine_nil_lf net h
      obtain ⟨r, net2, h2, h3, _⟩ := readLine_nil net1 hs1
      rw [recv_eq, hb, h1]
      simp only [hsk, Bool.true_and, beq_self_eq_true, if_true, h2]
      rcases h3 with rfl | rfl <;> simp [recvFirst]
    · rw [hb] at h
      simp only [List.cons_append, List.cons.injEq, List.append_eq_nil_iff] at h
      obtain ⟨rfl, rfl, hs⟩ := h
      obtain ⟨r, net2, h2, h3, _⟩ := readLine_nil net hs
      rw [recv_eq, hb, readLine_lf]
      simp only [hsk, Bool.true_and, beq_self_eq_true, if_true, h2]
      rcases h3 with rfl | rfl <;> simp [recvFirst]

theorem ctlRecv_empty {w w' : World} {r : Reply} (hs : Sync w []) : ctlRecv w ≠ (.ok r, w') := by
  intro h
  have hc := ctlRecv_connected h
  rcases hr : Reader.recv { w.ctl with closed := false } w.net with ⟨rr, c', net'⟩
  have hn : ∀ code text, rr ≠ .reply code text := by
    have := recv_nothing { w.ctl with closed := false } w.net hs.1
    rw [hr] at this
    exact this
  rw [ctlRecv_noreply w rr c' net' hc hr hn] at h
  cases h

/-! ### the session state along a successful run -/

/-- the unread replies, the rest of the script -/
structure St (w : World) (q : List WfReply) (gs : List SGroup) : Prop where
  sync : Sync w q
  script : w.script = gs.map SGroup.enc
  wf : WfScript gs

theorem St.dat {w w' : World} {q : List WfReply} {gs : List SGroup} (hst : St w q gs) (h : Rdat w w') : St w' q gs :=
  ⟨sync_of_dat h hst.sync, h.2.2.1.trans hst.script, hst.wf⟩

theorem St.frame {w w' : World} {q : List WfReply} {gs : List SGroup} (hst : St w q gs) (h1 : w'.ctl = w.ctl)
    (h2 : w'.net = w.net) (h3 : w'.script = w.script) : St w' q gs := by
  refine ⟨?_, h3.trans hst.script, hst.wf⟩
  have := hst.sync
  unfold Sync at *
  rw [h1, h2]; exact this

theorem recv_back {w w' : World} {r : Reply} {q : List WfReply} {gs : List SGroup} (h : ctlRecv w = (.ok r, w'))
    (hst : St w q gs) :
    ∃ x q', q = x :: q' ∧ r = replyOf x ∧ x.wf ∧ St w' q' gs := by
  rcases q with _ | ⟨x, q'⟩
  · exact absurd h (ctlRecv_empty hst.sync)
  · obtain ⟨h1, _, c', net', h2, h3⟩ := ctlRecv_back h hst.sync
    refine ⟨x, q', rfl, h1, hst.sync.2.2 x (List.mem_cons_self ..), h3, ?_, hst.wf⟩
    rw [h2]; exact hst.script

theorem recvInto_back {rs rs' : Replies} {w w' : World} {r : Reply} {q : List WfReply} {gs : List SGroup}
    (h : recvInto rs w = (.ok (r, rs'), w')) (hst : St w q gs) :
    ∃ x q', q = x :: q' ∧ r = replyOf x ∧ x.wf ∧ rs' = rs.append (replyOf x) ∧ St w' q' gs ∧
      Ext w w' [] [replyOf x] := by
  obtain ⟨e, x1, _⟩ := recvInto_ext h
  unfold recvInto at h
  simp only [CtlL.bind_ok, CtlL.pure_ok, Prod.mk.injEq] at h
  obtain ⟨r0, w1, h1, ⟨rfl, rfl⟩, rfl⟩ := h
  obtain ⟨x, q', hq, hr, hx, hst'⟩ := recv_back h1 hst
  subst hr
  exact ⟨x, q', hq, rfl, hx, rfl, hst', x1⟩

theorem St.send {c : Bytes} {w : World} {q : List WfReply} {gs : List SGroup} (hst : St w q gs) :
    St (sendW c w) (q ++ (nextG gs).replies) gs.tail := by
  obtain ⟨h1, h2⟩ := sync_sendW (cmd := c) hst.sync hst.script hst.wf
  exact ⟨h1, h2, wfScript_tail hst.wf⟩

theorem turn_back {c : Bytes} {rs rs' : Replies} {w w' : World} {r : Reply} {q : List WfReply} {gs : List SGroup}
    (h : processCommandInto c rs w = (.ok (r, rs'), w')) (hst : St w q gs) :
    ∃ x q', q ++ (nextG gs).replies = x :: q' ∧ r = replyOf x ∧ x.wf ∧ rs' = rs.append (replyOf x) ∧
      St w' q' gs.tail ∧ Ext w w' [c ++ CRLF] [replyOf x] := by
  obtain ⟨e, x1, _⟩ := processCommandInto_ext h
  unfold processCommandInto at h
  simp only [CtlL.bind_ok] at h
  obtain ⟨_, w1, h1, h2⟩ := h
  obtain ⟨_, rfl⟩ := ctlSend_back h1
  obtain ⟨x, q', hq, hr, hx, hrs, hst', _⟩ := recvInto_back h2 (hst.send (c := c))
  subst hr
  exact ⟨x, q', hq, rfl, hx, hrs, hst', x1⟩

theorem processCommand_back {c : Bytes} {w w' : World} {r : Reply} {q : List WfReply} {gs : List SGroup}
    (h : processCommand c w = (.ok r, w')) (hst : St w q gs) :
    ∃ x q', q ++ (nextG gs).replies = x :: q' ∧ r = replyOf x ∧ x.wf ∧
      St w' q' gs.tail ∧ Ext w w' [c ++ CRLF] [replyOf x] := by
  obtain ⟨x1, _⟩ := processCommand_ext h
  unfold processCommand at h
  simp only [CtlL.bind_ok] at h
  obtain ⟨_, w1, h1, h2⟩ := h
  obtain ⟨_, rfl⟩ := ctlSend_back h1
  obtain ⟨x, q', hq, hr, hx, hst'⟩ := recv_back h2 (hst.send (c := c))
  subst hr
  exact ⟨x, q', hq, rfl, hx, hst', x1⟩


/-! ### the dialog of a call: single-reply turns -/

/-- the reply groups the scripted server plays for the next `n` commands -/
def gen : List SGroup → Nat → List (List WfReply)
  | _, 0 => []
  | gs, n + 1 => (nextG gs).replies :: gen gs.tail n

theorem drop_tail' {α} (gs : List α) (n : Nat) : gs.tail.drop n = gs.drop (n + 1) := by
  cases gs <;> simp

theorem gen_add (gs : List SGroup) (n m : Nat) : gen gs (n + m) = gen gs n ++ gen (gs.drop n) m := by
  induction n generalizing gs with
  | zero => simp [gen]
  | succ n ih =>
    have : n + 1 + m = (n + m) + 1 := by omega
    rw [this]
    simp only [gen, ih, drop_tail', List.cons_append]

theorem gen_length (gs : List SGroup) (n : Nat) : (gen gs n).length = n := by
  induction n generalizing gs with
  | zero => rfl
  | succ n ih => simp [gen, ih]

/-- a run of single-reply turns `T` (command, reply) from the state `(w, q, gs)` to `(w', q', gs.drop T.length)` -/
structure Run (w w' : World) (q q' : List WfReply) (gs : List SGroup) (T : List (Bytes × WfReply)) : Prop where
  ext : Ext w w' (T.map (·.1 ++ CRLF)) (T.map (fun t => replyOf t.2))
  st : St w' q' (gs.drop T.length)
  led : q ++ (gen gs T.length).flatten = T.map (·.2) ++ q'
  wf : ∀ t ∈ T, t.2.wf

theorem Run.nil {w : World} {q : List WfReply} {gs : List SGroup} (hst : St w q gs) : Run w w q q gs [] :=
  ⟨Ext.refl w, hst, by simp [gen], by simp⟩

theorem Run.trans {w w1 w2 : World} {q q1 q2 : List WfReply} {gs : List SGroup} {T1 T2 : List (Bytes × WfReply)}
    (h1 : Run w w1 q q1 gs T1) (h2 : Run w1 w2 q1 q2 (gs.drop T1.length) T2) : Run w w2 q q2 gs (T1 ++ T2) := by
  refine ⟨by simpa using h1.ext.trans h2.ext, ?_, ?_, ?_⟩
  · have := h2.st
    rwa [List.drop_drop, ← List.length_append] at this
  · rw [List.length_append, gen_add, List.flatten_append, ← List.append_assoc, h1.led, List.append_assoc, h2.led]
    simp
  · intro t ht
    rcases List.mem_append.mp ht with ht | ht
    · exact h1.wf t ht
    · exact h2.wf t ht

theorem Run.turn {c : Bytes} {rs rs' : Replies} {w w' : World} {r : Reply} {q : List WfReply} {gs : List SGroup}
    (h : processCommandInto c rs w = (.ok (r, rs'), w')) (hst : St w q gs) :
    ∃ x q', r = replyOf x ∧ rs' = rs.append (replyOf x) ∧ Run w w' q q' gs [(c, x)] := by
  obtain ⟨x, q', hq, hr, hx, hrs, hst', hext⟩ := turn_back h hst
  refine ⟨x, q', hr, hrs, hext, ?_, ?_, ?_⟩
  · simpa using hst'
  · simpa [gen] using hq
  · intro t ht; simp only [List.mem_singleton] at ht; subst ht; exact hx

theorem Run.turn' {c : Bytes} {w w' : World} {r : Reply} {q : List WfReply} {gs : List SGroup}
    (h : processCommand c w = (.ok r, w')) (hst : St w q gs) :
    ∃ x q', r = replyOf x ∧ Run w w' q q' gs [(c, x)] := by
  obtain ⟨x, q', hq, hr, hx, hst', hext⟩ := processCommand_back h hst
  refine ⟨x, q', hr, hext, ?_, ?_, ?_⟩
  · simpa using hst'
  · simpa [gen] using hq
  · intro t ht; simp only [List.mem_singleton] at ht; subst ht; exact hx

/-- a step that leaves the reader state, the unread bytes and the script alone and neither writes nor receives -/
theorem Run.frame {w w' w2 : World} {q q' : List WfReply} {gs : List SGroup} {T : List (Bytes × WfReply)}
    (h : Run w w' q q' gs T) (h1 : w2.ctl = w'.ctl) (h2 : w2.net = w'.net) (h3 : w2.script = w'.script)
    (hx : Ext w' w2 [] []) : Run w w2 q q' gs T :=
  ⟨by simpa using h.ext.trans hx, h.st.frame h1 h2 h3, h.led, h.wf⟩

theorem ext_of_dat {w w' : World} (hd : Rdat w w') : Ext w w' [] [] := by
  obtain ⟨_, _, _, _, _, evs, ht, hp⟩ := hd
  exact ⟨evs, ht, (writes_of_notCtl hp).1, (writes_of_notCtl hp).2⟩

/-- a step that leaves the control channel alone -/
theorem Run.dat {w w' w2 : World} {q q' : List WfReply} {gs : List SGroup} {T : List (Bytes × WfReply)}
    (h : Run w w' q q' gs T) (hd : Rdat w' w2) : Run w w2 q q' gs T :=
  h.frame hd.1 hd.2.1 hd.2.2.1 (ext_of_dat hd)

/-! ### command lines and their verbs (mirrors of the definitions of C02) -/

def xVerbOf (line : Bytes) : Bytes := line.takeWhile (· != SP)
def xTransferVerbs : List Bytes := [str "RETR", str "STOR", str "STOU", str "APPE", str "LIST", str "NLST"]
def xIsTransfer (line : Bytes) : Bool := xTransferVerbs.contains (xVerbOf line)
def xABOR : Bytes := str "ABOR"

/-- a command that is neither a transfer command nor ABOR -/
def LineOk (c : Bytes) : Prop := xIsTransfer c = false ∧ c ≠ xABOR

theorem takeWhile_nosp (l : Bytes) (h : SP ∉ l) : l.takeWhile (· != SP) = l := by
  induction l with
  | nil => rfl
  | cons b t ih =>
    have hb : b ≠ SP := fun e => h (e ▸ List.mem_cons_self ..)
    have ht : SP ∉ t := fun e => h (List.mem_cons_of_mem _ e)
    simp [List.takeWhile_cons, hb, ih ht]

theorem takeWhile_sp (l x : Bytes) (h : SP ∉ l) : (l ++ SP :: x).takeWhile (· != SP) = l := by
  induction l with
  | nil => simp
  | cons b t ih =>
    have hb : b ≠ SP := fun e => h (e ▸ List.mem_cons_self ..)
    have ht : SP ∉ t := fun e => h (List.mem_cons_of_mem _ e)
    simp [List.takeWhile_cons, hb, ih ht]

theorem verb_line (v : String) (a : Option Bytes) (h : SP ∉ str v) : xVerbOf (Spec.line v a) = str v := by
  cases a with
  | none => exact takeWhile_nosp _ h
  | some x =>
    simp only [xVerbOf, Spec.line, List.append_assoc, List.singleton_append]
    exact takeWhile_sp _ _ h

theorem lineOk_of_verb {c v : Bytes} (h : xVerbOf c = v) (h1 : xTransferVerbs.contains v = false) (h2 : v ≠ xABOR) :
    LineOk c := by
  refine ⟨by unfold xIsTransfer; rw [h]; exact h1, ?_⟩
  rintro rfl
  have : xVerbOf xABOR = xABOR := by decide
  exact h2 (h.symm.trans this)

theorem lineOk_line {v : String} (a : Option Bytes) (h : SP ∉ str v) (h1 : xTransferVerbs.contains (str v) = false)
    (h2 : str v ≠ xABOR) : LineOk (Spec.line v a) := lineOk_of_verb (verb_line v a h) h1 h2

theorem lineOk_type (t : TType) : LineOk (typeCommand t) := by
  cases t <;> exact ⟨by decide, by decide⟩

theorem lineOk_eprt (fam : Family) (addr : Bytes) (port : Nat) : LineOk (fmtEprt fam addr port) := by
  have e : fmtEprt fam addr port = str "EPRT" ++ SP :: ([124] ++ (match fam with | .v4 => [49] | .v6 => [50]) ++
      [124] ++ addr ++ [124] ++ toDec port ++ [124]) := by
    unfold fmtEprt
    have : str "EPRT |" = str "EPRT" ++ SP :: [124] := by decide
    rw [this]; cases fam <;> simp
  refine lineOk_of_verb (v := str "EPRT") ?_ (by decide) (by decide)
  rw [e]
  exact takeWhile_sp _ _ (by decide)

theorem lineOk_port {fam : Family} {addr : Bytes} {port : Nat} {c : Bytes} (h : fmtPort fam addr port = some c) :
    LineOk c := by
  cases fam with
  | v6 => cases h
  | v4 =>
    simp only [fmtPort, Option.some.injEq] at h
    subst h
    have : str "PORT " = str "PORT" ++ SP :: [] := by decide
    refine lineOk_of_verb (v := str "PORT") ?_ (by decide) (by decide)
    rw [this]
    simp only [List.append_assoc, List.cons_append, List.nil_append]
    exact takeWhile_sp _ _ (by decide)


/-! ### the calls as runs of turns -/

theorem simple_run {v : String} {a : Option Bytes} {w w' : World} {r : Reply} {q : List WfReply} {gs : List SGroup}
    (h : simple v a w = (.ok r, w')) (hst : St w q gs) :
    ∃ x q', r = replyOf x ∧ Run w w' q q' gs [(Spec.line v a, x)] := by
  unfold simple at h
  simp only [CtlL.bind_ok] at h
  obtain ⟨c, w0, hc, h⟩ := h
  obtain ⟨mc, e⟩ := mkCmd_ok hc; subst e
  rw [← makeCommand_line _ _ _ mc]
  exact Run.turn' h hst

theorem setTransferType_run {t : TType} {w w' : World} {r : Reply} {q : List WfReply} {gs : List SGroup}
    (h : setTransferType t w = (.ok r, w')) (hst : St w q gs) :
    ∃ x q', r = replyOf x ∧ Run w w' q q' gs [(typeCommand t, x)] := by
  unfold setTransferType at h
  simp only [CtlL.bind_ok] at h
  obtain ⟨r1, w1, h1, h⟩ := h
  obtain ⟨x, q', hr, hrun⟩ := Run.turn' h1 hst
  split at h
  · simp only [CtlL.bind_ok, CtlL.modifyW_ok, CtlL.pure_ok] at h
    obtain ⟨_, _, rfl, rfl, rfl⟩ := h
    exact ⟨x, q', hr, hrun.frame rfl rfl rfl ⟨[], by simp, rfl, rfl⟩⟩
  · simp only [CtlL.pure_ok] at h
    obtain ⟨rfl, rfl⟩ := h
    exact ⟨x, q', hr, hrun⟩

theorem rename_run {a b : Bytes} {w w' : World} {rs : Replies} {q : List WfReply} {gs : List SGroup}
    (h : rename a b w = (.ok rs, w')) (hst : St w q gs) :
    ∃ T q', rs.list = T.map (fun t => replyOf t.2) ∧ Run w w' q q' gs T ∧ ∀ t ∈ T, LineOk t.1 := by
  unfold rename at h
  simp only [CtlL.bind_ok] at h
  obtain ⟨c1, wa, hc1, c2, wb, hc2, ⟨r1, rs1⟩, w1, h1, h⟩ := h
  obtain ⟨m1, e⟩ := mkCmd_ok hc1; subst e
  obtain ⟨m2, e⟩ := mkCmd_ok hc2; subst e
  have e1 := makeCommand_line _ _ _ m1
  have e2 := makeCommand_line _ _ _ m2
  have k1 : LineOk c1 := e1 ▸ lineOk_line _ (by decide) (by decide) (by decide)
  have k2 : LineOk c2 := e2 ▸ lineOk_line _ (by decide) (by decide) (by decide)
  obtain ⟨x, q1, hr, hrs, hrun⟩ := Run.turn h1 hst
  subst hrs
  dsimp only at h
  split at h
  · simp only [CtlL.bind_ok, CtlL.pure_ok] at h
    obtain ⟨⟨r2, rs2⟩, w2, h2, rfl, rfl⟩ := h
    obtain ⟨y, q2, hr2, hrs2, hrun2⟩ := Run.turn h2 hrun.st
    subst hrs2
    refine ⟨[(c1, x), (c2, y)], q2, by simp [Replies.empty], hrun.trans hrun2, ?_⟩
    intro t ht
    simp only [List.mem_cons, List.not_mem_nil, or_false] at ht
    rcases ht with rfl | rfl <;> assumption
  · simp only [CtlL.pure_ok] at h
    obtain ⟨rfl, rfl⟩ := h
    refine ⟨[(c1, x)], q1, by simp [Replies.empty], hrun, ?_⟩
    intro t ht
    simp only [List.mem_singleton] at ht
    subst ht; exact k1

theorem run_close {α} {a o : α} {w0 w w' : World} {q q' : List WfReply} {gs : List SGroup} {T : List (Bytes × WfReply)}
    {wi : World} (hrun : Run wi w q q' gs T)
    (h : (if w0.connected = true then do ctlClose; pure a else pure a) w = (.ok o, w')) :
    o = a ∧ Run wi w' q q' gs T := by
  split at h
  · simp only [CtlL.bind_ok, CtlL.pure_ok] at h
    obtain ⟨_, w1, h1, rfl, rfl⟩ := h
    rw [DataL.ctlClose_run] at h1
    simp only [Prod.mk.injEq, true_and] at h1
    subst h1
    exact ⟨rfl, hrun.frame rfl rfl rfl ⟨[.ctlShutdown, .ctlClose], by simp, rfl, rfl⟩⟩
  · simp only [CtlL.pure_ok] at h
    obtain ⟨rfl, rfl⟩ := h
    exact ⟨rfl, hrun⟩

theorem disconnect_run {g : Bool} {w w' : World} {o : Option Reply} {q : List WfReply} {gs : List SGroup}
    (h : disconnect g w = (.ok o, w')) (hst : St w q gs) :
    ∃ T q', (Out.opt o).replyList = T.map (fun t => replyOf t.2) ∧ Run w w' q q' gs T ∧ ∀ t ∈ T, LineOk t.1 := by
  unfold disconnect at h
  cases g
  · simp only [Bool.false_eq_true, if_false, CtlL.bind_ok, CtlL.pure_ok, CtlL.getW_ok] at h
    obtain ⟨_, _, ⟨rfl, rfl⟩, _, _, ⟨rfl, rfl⟩, h⟩ := h
    obtain ⟨rfl, hrun⟩ := run_close (Run.nil hst) h
    exact ⟨[], q, rfl, hrun, by simp⟩
  · simp only [if_true, CtlL.bind_ok, CtlL.pure_ok, CtlL.getW_ok] at h
    obtain ⟨_, w1, ⟨c, w0, hc, r, w2, h2, rfl, rfl⟩, _, _, ⟨rfl, rfl⟩, h⟩ := h
    obtain ⟨mc, e⟩ := mkCmd_ok hc; subst e
    have ec := makeCommand_line _ _ _ mc
    obtain ⟨x, q1, hr, hrun⟩ := Run.turn' h2 hst
    obtain ⟨rfl, hrun'⟩ := run_close hrun h
    refine ⟨[(c, x)], q1, by simp [Out.replyList, hr], hrun', ?_⟩
    intro t ht
    simp only [List.mem_singleton] at ht
    subst ht
    show LineOk c
    rw [ec]
    exact lineOk_line (v := "QUIT") none (by decide) (by decide) (by decide)

theorem processLogin_run {u p : Bytes} {rs rs' : Replies} {w w' : World} {r : Reply} {q : List WfReply}
    {gs : List SGroup} (h : processLogin u p rs w = (.ok (r, rs'), w')) (hst : St w q gs) :
    ∃ T q', rs'.list = rs.list ++ T.map (fun t => replyOf t.2) ∧ Run w w' q q' gs T ∧ ∀ t ∈ T, LineOk t.1 := by
  unfold processLogin at h
  simp only [CtlL.bind_ok] at h
  obtain ⟨cu, wa, hcu, cp, wb, hcp, ⟨r1, rs1⟩, w1, h1, h⟩ := h
  obtain ⟨mcu, e⟩ := mkCmd_ok hcu; subst wa
  obtain ⟨mcp, e⟩ := mkCmd_ok hcp; subst wb
  have ku : LineOk cu := makeCommand_line _ _ _ mcu ▸ lineOk_line _ (by decide) (by decide) (by decide)
  have kp : LineOk cp := makeCommand_line _ _ _ mcp ▸ lineOk_line _ (by decide) (by decide) (by decide)
  obtain ⟨x, q1, hr, hrs, hrun⟩ := Run.turn h1 hst
  subst hrs
  -- the tail: TYPE unless the last reply was negative
  have tail : ∀ (r2 : Reply) (rs2 : Replies) (w2 : World) (q2 : List WfReply) (T : List (Bytes × WfReply)),
      Run w w2 q q2 gs T → (∀ t ∈ T, LineOk t.1) → rs2.list = rs.list ++ T.map (fun t => replyOf t.2) →
      (if r2.isNegative = true then pure (r2, rs2)
        else do
          let w ← getW
          processCommandInto (typeCommand w.ttype) rs2) w2 = (Res.ok (r, rs'), w') →
      ∃ T q', rs'.list = rs.list ++ T.map (fun t => replyOf t.2) ∧ Run w w' q q' gs T ∧ ∀ t ∈ T, LineOk t.1 := by
    intro r2 rs2 w2 q2 T hrunT hok hl h
    split at h
    · simp only [CtlL.pure_ok, Prod.mk.injEq] at h
      obtain ⟨⟨rfl, rfl⟩, rfl⟩ := h
      exact ⟨T, q2, hl, hrunT, hok⟩
    · simp only [CtlL.bind_ok, CtlL.getW_ok] at h
      obtain ⟨_, _, ⟨e, e'⟩, h⟩ := h
      subst e'; subst e
      obtain ⟨y, q3, hr3, hrs3, hrun3⟩ := Run.turn h hrunT.st
      subst hrs3
      refine ⟨T ++ [(typeCommand _, y)], q3, by simp [hl], hrunT.trans hrun3, ?_⟩
      intro t ht
      rcases List.mem_append.mp ht with ht | ht
      · exact hok t ht
      · simp only [List.mem_singleton] at ht
        subst ht; exact lineOk_type _
  have hok1 : ∀ t ∈ [(cu, x)], LineOk t.1 := by
    intro t ht; simp only [List.mem_singleton] at ht; subst ht; exact ku
  dsimp only at h
  split at h
  · simp only [CtlL.bind_ok] at h
    obtain ⟨⟨r2, rs2⟩, w2, h2, h⟩ := h
    obtain ⟨y, q2, hr2, hrs2, hrun2⟩ := Run.turn h2 hrun.st
    subst hrs2
    refine tail _ _ _ _ [(cu, x), (cp, y)] (hrun.trans hrun2) ?_ (by simp) h
    intro t ht
    simp only [List.mem_cons, List.not_mem_nil, or_false] at ht
    rcases ht with rfl | rfl <;> assumption
  · rw [CtlL.pure_bind_M] at h
    exact tail _ _ _ _ [(cu, x)] hrun hok1 (by simp) h

theorem login_run {u p : Bytes} {w w' : World} {rs : Replies} {q : List WfReply} {gs : List SGroup}
    (h : login u p w = (.ok rs, w')) (hst : St w q gs) :
    ∃ T q', rs.list = T.map (fun t => replyOf t.2) ∧ Run w w' q q' gs T ∧ ∀ t ∈ T, LineOk t.1 := by
  unfold login at h
  simp only [CtlL.bind_ok, CtlL.pure_ok] at h
  obtain ⟨⟨r, rs1⟩, w1, h1, rfl, rfl⟩ := h
  obtain ⟨T, q', hl, hrun, hok⟩ := processLogin_run h1 hst
  exact ⟨T, q', by simpa [Replies.empty] using hl, hrun, hok⟩


/-! ### the set-up of the data connection as a run of turns -/

/-- what the set-up sends and receives: the set-up command is refused, or it is accepted and the transfer command
    sent -/
def CdcShape (setup cmd : Bytes) (ready : Bool) (T : List (Bytes × WfReply)) : Prop :=
  (∃ x, T = [(setup, x)] ∧ 400 ≤ x.code ∧ ready = false) ∨
  (∃ x y, T = [(setup, x), (cmd, y)] ∧ x.code < 400 ∧ ready = decide (y.code < 400))

theorem neg_iff {x : WfReply} (hx : x.wf) : (replyOf x).isNegative = true ↔ 400 ≤ x.code := by
  rw [isNegative_replyOf hx]; simp

theorem run_wf1 {w w' : World} {q q' : List WfReply} {gs : List SGroup} {c : Bytes} {x : WfReply}
    (h : Run w w' q q' gs [(c, x)]) : x.wf := h.wf (c, x) (List.mem_singleton.mpr rfl)

/-- the part of the passive set-up after the connect -/
theorem passiveTail_back {cmd : Bytes} {rs rs' : Replies} {w w' : World} {ready : Bool} {q : List WfReply}
    {gs : List SGroup}
    (h : (do
      let __x ← processCommandInto cmd rs
      match __x with
        | (r, rs) =>
          if r.isNegative = true then do
            dataDisconnect true
            pure (false, rs)
          else pure (true, rs)) w = (.ok (ready, rs'), w')) (hst : St w q gs) :
    ∃ y q', rs'.list = rs.list ++ [replyOf y] ∧ Run w w' q q' gs [(cmd, y)] ∧ ready = decide (y.code < 400) := by
  simp only [CtlL.bind_ok] at h
  obtain ⟨⟨r3, rs3⟩, w3, h3, h⟩ := h
  obtain ⟨y, q3, hr3, hrs3, hrun3⟩ := Run.turn h3 hst
  have hy := run_wf1 hrun3
  subst hrs3 hr3
  dsimp only at h
  split at h
  · rename_i hneg
    simp only [CtlL.bind_ok, CtlL.pure_ok, Prod.mk.injEq] at h
    obtain ⟨_, w4, h4, ⟨rfl, rfl⟩, rfl⟩ := h
    refine ⟨y, q3, by simp, hrun3.dat ((dataDisconnect_dat _).of_eq h4), ?_⟩
    have := (neg_iff hy).mp hneg
    simp; omega
  · rename_i hneg
    simp only [CtlL.pure_ok, Prod.mk.injEq] at h
    obtain ⟨⟨rfl, rfl⟩, rfl⟩ := h
    refine ⟨y, q3, by simp, hrun3, ?_⟩
    have : ¬ 400 ≤ y.code := fun h => hneg ((neg_iff hy).mpr h)
    simp; omega

theorem processEpsv_back {cmd : Bytes} {rs rs' : Replies} {w w' : World} {ready : Bool} {q : List WfReply}
    {gs : List SGroup} (h : processEpsv cmd rs w = (.ok (ready, rs'), w')) (hst : St w q gs) :
    ∃ T q', rs'.list = rs.list ++ T.map (fun t => replyOf t.2) ∧ Run w w' q q' gs T ∧
      CdcShape (str "EPSV") cmd ready T := by
  unfold processEpsv at h
  simp only [CtlL.bind_ok] at h
  obtain ⟨c, w0, hc, ⟨r1, rs1⟩, w1, h1, h⟩ := h
  obtain ⟨mc, e⟩ := mkCmd_ok hc; subst w0
  have ec : c = str "EPSV" := by rw [makeCommand_line _ _ _ mc]; rfl
  subst ec
  obtain ⟨x, q1, hr, hrs, hrun⟩ := Run.turn h1 hst
  have hx := run_wf1 hrun
  subst hrs hr
  dsimp only at h
  split at h
  · rename_i hneg
    simp only [CtlL.pure_ok, Prod.mk.injEq] at h
    obtain ⟨⟨rfl, rfl⟩, rfl⟩ := h
    exact ⟨_, q1, by simp, hrun, .inl ⟨x, rfl, (neg_iff hx).mp hneg, rfl⟩⟩
  · rename_i hneg
    have hx4 : x.code < 400 := by
      have : ¬ 400 ≤ x.code := fun h => hneg ((neg_iff hx).mpr h)
      omega
    rcases hp : parseEpsv (replyOf x).text with _ | port
    · simp [hp, CtlL.throwE_ok] at h
    · simp only [hp] at h
      rw [CtlL.bind_ok] at h
      obtain ⟨_, _, hg, h⟩ := h
      obtain ⟨rfl, rfl⟩ := CtlL.getW_ok.mp hg
      rw [CtlL.bind_ok] at h
      obtain ⟨_, w2, h2, h⟩ := h
      have hrun2 := hrun.dat ((dataConnect_dat _ _).of_eq h2)
      obtain ⟨y, q3, hl, hrun3, hready⟩ := passiveTail_back h hrun2.st
      exact ⟨_, q3, by simp [hl], hrun2.trans hrun3, .inr ⟨x, y, rfl, hx4, hready⟩⟩

theorem processPasv_back {cmd : Bytes} {rs rs' : Replies} {w w' : World} {ready : Bool} {q : List WfReply}
    {gs : List SGroup} (h : processPasv cmd rs w = (.ok (ready, rs'), w')) (hst : St w q gs) :
    ∃ T q', rs'.list = rs.list ++ T.map (fun t => replyOf t.2) ∧ Run w w' q q' gs T ∧
      CdcShape (str "PASV") cmd ready T := by
  unfold processPasv at h
  simp only [CtlL.bind_ok] at h
  obtain ⟨c, w0, hc, ⟨r1, rs1⟩, w1, h1, h⟩ := h
  obtain ⟨mc, e⟩ := mkCmd_ok hc; subst w0
  have ec : c = str "PASV" := by rw [makeCommand_line _ _ _ mc]; rfl
  subst ec
  obtain ⟨x, q1, hr, hrs, hrun⟩ := Run.turn h1 hst
  have hx := run_wf1 hrun
  subst hrs hr
  dsimp only at h
  split at h
  · rename_i hneg
    simp only [CtlL.pure_ok, Prod.mk.injEq] at h
    obtain ⟨⟨rfl, rfl⟩, rfl⟩ := h
    exact ⟨_, q1, by simp, hrun, .inl ⟨x, rfl, (neg_iff hx).mp hneg, rfl⟩⟩
  · rename_i hneg
    have hx4 : x.code < 400 := by
      have : ¬ 400 ≤ x.code := fun h => hneg ((neg_iff hx).mpr h)
      omega
    rcases hp : parsePasv (replyOf x).text with _ | ⟨ip, port⟩
    · simp [hp, CtlL.throwE_ok] at h
    · simp only [hp] at h
      rw [CtlL.bind_ok] at h
      obtain ⟨_, w2, h2, h⟩ := h
      have hrun2 := hrun.dat ((dataConnect_dat _ _).of_eq h2)
      obtain ⟨y, q3, hl, hrun3, hready⟩ := passiveTail_back h hrun2.st
      exact ⟨_, q3, by simp [hl], hrun2.trans hrun3, .inr ⟨x, y, rfl, hx4, hready⟩⟩

/-- the two commands of the active set-up, once the line has been built -/
theorem activeTail_back {c cmd : Bytes} {rs rs' : Replies} {w w' : World} {ready : Bool} {q : List WfReply}
    {gs : List SGroup}
    (h : (do
      let __x ← processCommandInto c rs
      match __x with
        | (r, rs) =>
          if r.isNegative = true then pure (false, rs)
          else do
            let __x ← processCommandInto cmd rs
            match __x with
              | (r, rs) =>
                if r.isNegative = true then pure (false, rs)
                else do
                  dataAccept
                  pure (true, rs)) w = (.ok (ready, rs'), w')) (hst : St w q gs) :
    ∃ T q', rs'.list = rs.list ++ T.map (fun t => replyOf t.2) ∧ Run w w' q q' gs T ∧ CdcShape c cmd ready T := by
  simp only [CtlL.bind_ok] at h
  obtain ⟨⟨r1, rs1⟩, w1, h1, h⟩ := h
  obtain ⟨x, q1, hr, hrs, hrun⟩ := Run.turn h1 hst
  have hx := run_wf1 hrun
  subst hrs hr
  dsimp only at h
  split at h
  · rename_i hneg
    simp only [CtlL.pure_ok, Prod.mk.injEq] at h
    obtain ⟨⟨rfl, rfl⟩, rfl⟩ := h
    exact ⟨_, q1, by simp, hrun, .inl ⟨x, rfl, (neg_iff hx).mp hneg, rfl⟩⟩
  · rename_i hneg
    have hx4 : x.code < 400 := by
      have : ¬ 400 ≤ x.code := fun h => hneg ((neg_iff hx).mpr h)
      omega
    simp only [CtlL.bind_ok] at h
    obtain ⟨⟨r3, rs3⟩, w3, h3, h⟩ := h
    obtain ⟨y, q3, hr3, hrs3, hrun3⟩ := Run.turn h3 hrun.st
    have hy := run_wf1 hrun3
    subst hrs3 hr3
    dsimp only at h
    split at h
    · rename_i hneg3
      simp only [CtlL.pure_ok, Prod.mk.injEq] at h
      obtain ⟨⟨rfl, rfl⟩, rfl⟩ := h
      refine ⟨_, q3, by simp, hrun.trans hrun3, .inr ⟨x, y, rfl, hx4, ?_⟩⟩
      have := (neg_iff hy).mp hneg3
      simp; omega
    · rename_i hneg3
      simp only [CtlL.bind_ok, CtlL.pure_ok, Prod.mk.injEq] at h
      obtain ⟨_, w4, h4, ⟨rfl, rfl⟩, rfl⟩ := h
      refine ⟨_, q3, by simp, (hrun.trans hrun3).dat (dataAccept_dat.of_eq h4), .inr ⟨x, y, rfl, hx4, ?_⟩⟩
      have : ¬ 400 ≤ y.code := fun h => hneg3 ((neg_iff hy).mpr h)
      simp; omega

theorem processActive_back {eprt : Bool} {cmd : Bytes} {rs rs' : Replies} {w w' : World} {ready : Bool}
    {q : List WfReply} {gs : List SGroup} (h : processActive eprt cmd rs w = (.ok (ready, rs'), w'))
    (hst : St w q gs) :
    ∃ setup T q', LineOk setup ∧ rs'.list = rs.list ++ T.map (fun t => replyOf t.2) ∧ Run w w' q q' gs T ∧
      CdcShape setup cmd ready T := by
  unfold processActive at h
  simp only [CtlL.bind_ok, CtlL.getW_ok] at h
  obtain ⟨port, w1, h1, wa, wb, ⟨e, e'⟩, h⟩ := h
  subst e'; subst e
  have hd := dataListen_dat.of_eq h1
  have hst1 := hst.dat hd
  split at h
  · rw [CtlL.pure_bind_M] at h
    obtain ⟨T, q', hl, hrun, hsh⟩ := activeTail_back h hst1
    exact ⟨_, T, q', lineOk_eprt _ _ _, hl, ⟨by simpa using (ext_of_dat hd).trans hrun.ext, hrun.st, hrun.led, hrun.wf⟩, hsh⟩
  · rcases hp : fmtPort (if wa.v6 = true then Family.v6 else Family.v4) (addrText wa) port with _ | c
    · simp only [hp, CtlL.throwE_bind_M, CtlL.throwE_ok] at h
    · simp only [hp] at h
      rw [CtlL.pure_bind_M] at h
      obtain ⟨T, q', hl, hrun, hsh⟩ := activeTail_back h hst1
      exact ⟨_, T, q', lineOk_port hp, hl, ⟨by simpa using (ext_of_dat hd).trans hrun.ext, hrun.st, hrun.led, hrun.wf⟩, hsh⟩

theorem createDataConnection_back {cmd : Bytes} {rs rs' : Replies} {w w' : World} {ready : Bool}
    {q : List WfReply} {gs : List SGroup} (h : createDataConnection cmd rs w = (.ok (ready, rs'), w'))
    (hst : St w q gs) :
    ∃ setup T q', LineOk setup ∧ rs'.list = rs.list ++ T.map (fun t => replyOf t.2) ∧ Run w w' q q' gs T ∧
      CdcShape setup cmd ready T := by
  rw [createDataConnection_eq] at h
  rcases hm : w.mode <;> rcases hr : w.rfc <;> simp only [hm, hr] at h
  · obtain ⟨T, q', hl, hrun, hsh⟩ := processPasv_back h hst
    exact ⟨_, T, q', ⟨by decide, by decide⟩, hl, hrun, hsh⟩
  · obtain ⟨T, q', hl, hrun, hsh⟩ := processEpsv_back h hst
    exact ⟨_, T, q', ⟨by decide, by decide⟩, hl, hrun, hsh⟩
  · exact processActive_back h hst
  · exact processActive_back h hst


/-! ### the dialog of a call: the client's reading pattern -/

/-- the patterns in which the client consumes replies: per command (or `none` = the connect) the replies it reads
    before the next command -/
inductive Pat : List (Option Bytes × List WfReply) → Prop
  | nil : Pat []
  | greet1 (x : WfReply) (rest) : x.code ≠ 120 → Pat rest → Pat ((none, [x]) :: rest)
  | greet2 (x y : WfReply) (rest) : x.code = 120 → Pat rest → Pat ((none, [x, y]) :: rest)
  | one (l : Bytes) (x : WfReply) (rest) : LineOk l → Pat rest → Pat ((some l, [x]) :: rest)
  | xferNeg (l : Bytes) (m : WfReply) : xIsTransfer l = true → 400 ≤ m.code → Pat [(some l, [m])]
  | xferDone (l : Bytes) (m c : WfReply) : xIsTransfer l = true → m.code < 400 → Pat [(some l, [m, c])]
  | xferAbort1 (l : Bytes) (m a : WfReply) : xIsTransfer l = true → m.code < 400 → a.code ≠ 426 →
      Pat [(some l, [m]), (some xABOR, [a])]
  | xferAbort2 (l : Bytes) (m a b : WfReply) : xIsTransfer l = true → m.code < 400 → a.code = 426 →
      Pat [(some l, [m]), (some xABOR, [a, b])]

def linesOf (D : List (Option Bytes × List WfReply)) : List Bytes := (D.filterMap (·.1)).map (· ++ CRLF)
def consumedOf (D : List (Option Bytes × List WfReply)) : List WfReply := (D.map (·.2)).flatten

/-- the summary of a call that returned: its dialog `D` against the generated groups `G`; `q'` stays unread -/
structure Dlg (w w' : World) (G : List (List WfReply)) (D : List (Option Bytes × List WfReply))
    (q' : List WfReply) : Prop where
  pat : Pat D
  ext : Ext w w' (linesOf D) ((consumedOf D).map replyOf)
  sync : Sync w' q'
  len : G.length = D.length
  led : G.flatten = consumedOf D ++ q'

def ones (T : List (Bytes × WfReply)) : List (Option Bytes × List WfReply) := T.map fun t => (some t.1, [t.2])

theorem pat_ones (T : List (Bytes × WfReply)) (h : ∀ t ∈ T, LineOk t.1) {rest : List (Option Bytes × List WfReply)}
    (hr : Pat rest) : Pat (ones T ++ rest) := by
  induction T with
  | nil => exact hr
  | cons t T ih =>
    exact Pat.one _ _ _ (h t (List.mem_cons_self ..)) (ih fun t ht => h t (List.mem_cons_of_mem _ ht))

theorem linesOf_ones (T : List (Bytes × WfReply)) : linesOf (ones T) = T.map (·.1 ++ CRLF) := by
  induction T with
  | nil => rfl
  | cons t T ih => simp_all [linesOf, ones]

theorem consumedOf_ones (T : List (Bytes × WfReply)) : consumedOf (ones T) = T.map (·.2) := by
  induction T with
  | nil => rfl
  | cons t T ih => simp_all [consumedOf, ones]

theorem Dlg.ofRun {w w' : World} {q' : List WfReply} {gs : List SGroup} {T : List (Bytes × WfReply)}
    (hrun : Run w w' [] q' gs T) (hok : ∀ t ∈ T, LineOk t.1) : Dlg w w' (gen gs T.length) (ones T) q' := by
  refine ⟨by simpa using pat_ones T hok Pat.nil, ?_, hrun.st.sync, by simp [gen_length, ones], ?_⟩
  · rw [linesOf_ones, consumedOf_ones, List.map_map]
    exact hrun.ext
  · rw [consumedOf_ones]
    simpa using hrun.led

theorem Dlg.mainNeg {w w' : World} {q2 : List WfReply} {gs : List SGroup} {setup cmd : Bytes} {x y : WfReply}
    (hrun : Run w w' [] q2 gs [(setup, x), (cmd, y)]) (hs : LineOk setup) (hc : xIsTransfer cmd = true)
    (hy : 400 ≤ y.code) : Dlg w w' (gen gs 2) [(some setup, [x]), (some cmd, [y])] q2 :=
  ⟨Pat.one _ _ _ hs (Pat.xferNeg _ _ hc hy), by simpa [linesOf, consumedOf] using hrun.ext, hrun.st.sync,
    by simp [gen_length], by simpa [consumedOf] using hrun.led⟩

theorem Dlg.done {w w1 w' : World} {q2 q3 : List WfReply} {gs : List SGroup} {setup cmd : Bytes} {x y c : WfReply}
    (hrun : Run w w1 [] q2 gs [(setup, x), (cmd, y)]) (hx : Ext w1 w' [] [replyOf c]) (hq : q2 = c :: q3)
    (hsync : Sync w' q3) (hs : LineOk setup) (hc : xIsTransfer cmd = true) (hy : y.code < 400) :
    Dlg w w' (gen gs 2) [(some setup, [x]), (some cmd, [y, c])] q3 := by
  refine ⟨Pat.one _ _ _ hs (Pat.xferDone _ _ _ hc hy), ?_, hsync, by simp [gen_length], ?_⟩
  · simpa [linesOf, consumedOf] using hrun.ext.trans hx
  · have := hrun.led
    simp only [List.nil_append, List.length_cons, List.length_nil, List.map_cons, List.map_nil] at this
    rw [this, hq]
    simp [consumedOf]

theorem Dlg.abort1 {w w' : World} {q3 : List WfReply} {gs : List SGroup} {setup cmd : Bytes} {x y a : WfReply}
    (hrun : Run w w' [] q3 gs [(setup, x), (cmd, y), (xABOR, a)]) (hs : LineOk setup) (hc : xIsTransfer cmd = true)
    (hy : y.code < 400) (ha : a.code ≠ 426) :
    Dlg w w' (gen gs 3) [(some setup, [x]), (some cmd, [y]), (some xABOR, [a])] q3 :=
  ⟨Pat.one _ _ _ hs (Pat.xferAbort1 _ _ _ hc hy ha), by simpa [linesOf, consumedOf] using hrun.ext, hrun.st.sync,
    by simp [gen_length], by simpa [consumedOf] using hrun.led⟩

theorem Dlg.abort2 {w w1 w' : World} {q2 q4 : List WfReply} {gs : List SGroup} {setup cmd : Bytes} {x y a b : WfReply}
    (hrun : Run w w1 [] q2 gs [(setup, x), (cmd, y)]) (hx : Ext w1 w' [xABOR ++ CRLF] [replyOf a, replyOf b])
    (hq : q2 ++ (nextG (gs.drop 2)).replies = a :: b :: q4) (hsync : Sync w' q4) (hs : LineOk setup)
    (hc : xIsTransfer cmd = true) (hy : y.code < 400) (ha : a.code = 426) :
    Dlg w w' (gen gs 3) [(some setup, [x]), (some cmd, [y]), (some xABOR, [a, b])] q4 := by
  refine ⟨Pat.one _ _ _ hs (Pat.xferAbort2 _ _ _ _ hc hy ha), ?_, hsync, by simp [gen_length], ?_⟩
  · simpa [linesOf, consumedOf] using hrun.ext.trans hx
  · have := hrun.led
    simp only [List.nil_append, List.length_cons, List.length_nil, List.map_cons, List.map_nil] at this
    have e : gen gs 3 = gen gs 2 ++ gen (gs.drop 2) 1 := gen_add gs 2 1
    rw [e, List.flatten_append, this]
    simp only [gen, List.flatten_cons, List.flatten_nil, List.append_nil, List.append_assoc, hq]
    simp [consumedOf]

/-! ### the end of a transfer -/

theorem processAbort_back {rs rs' : Replies} {w w' : World} {q : List WfReply} {gs : List SGroup}
    (h : processAbort rs w = (.ok rs', w')) (hst : St w q gs) :
    (∃ a q', Run w w' q q' gs [(xABOR, a)] ∧ a.code ≠ 426 ∧ rs'.list = rs.list ++ [replyOf a]) ∨
    (∃ a b q', q ++ (nextG gs).replies = a :: b :: q' ∧ a.code = 426 ∧
      rs'.list = rs.list ++ [replyOf a, replyOf b] ∧ St w' q' gs.tail ∧
      Ext w w' [xABOR ++ CRLF] [replyOf a, replyOf b]) := by
  unfold processAbort at h
  simp only [CtlL.bind_ok] at h
  obtain ⟨c, w0, hc, ⟨r1, rs1⟩, w1, h1, h⟩ := h
  obtain ⟨mc, e⟩ := mkCmd_ok hc; subst w0
  have ec : c = xABOR := by rw [makeCommand_line _ _ _ mc]; rfl
  subst ec
  obtain ⟨a, q1, hq, hr, ha, hrs, hst1, hext1⟩ := turn_back h1 hst
  subst hrs hr
  dsimp only at h
  split at h
  · rename_i h426
    have h426 : a.code = 426 := by simpa [replyOf] using h426
    simp only [CtlL.bind_ok, CtlL.pure_ok] at h
    obtain ⟨⟨r2, rs2⟩, w2, h2, rfl, rfl⟩ := h
    obtain ⟨b, q2, hq2, hr2, hb, hrs2, hst2, hext2⟩ := recvInto_back h2 hst1
    subst hrs2 hq2
    exact .inr ⟨a, b, q2, hq, h426, by simp, hst2, by simpa using hext1.trans hext2⟩
  · rename_i h426
    have h426 : a.code ≠ 426 := by simpa [replyOf] using h426
    simp only [CtlL.pure_ok] at h
    obtain ⟨rfl, rfl⟩ := h
    refine .inl ⟨a, q1, ⟨by simpa using hext1, by simpa using hst1, by simpa [gen] using hq, ?_⟩, h426, by simp⟩
    intro t ht
    simp only [List.mem_singleton] at ht
    subst ht; exact ha

/-- how a transfer ends: the completion reply is read, or ABOR is sent and answered by one or two replies -/
inductive FinOut (w w' : World) (q : List WfReply) (gs : List SGroup) (rs rs' : Replies) : Prop
  | plain (c : WfReply) (q' : List WfReply) : q = c :: q' → rs'.list = rs.list ++ [replyOf c] → St w' q' gs →
      Ext w w' [] [replyOf c] → FinOut w w' q gs rs rs'
  | abort1 (a : WfReply) (q' : List WfReply) : Run w w' q q' gs [(xABOR, a)] → a.code ≠ 426 →
      rs'.list = rs.list ++ [replyOf a] → FinOut w w' q gs rs rs'
  | abort2 (a b : WfReply) (q' : List WfReply) : q ++ (nextG gs).replies = a :: b :: q' → a.code = 426 →
      rs'.list = rs.list ++ [replyOf a, replyOf b] → St w' q' gs.tail →
      Ext w w' [xABOR ++ CRLF] [replyOf a, replyOf b] → FinOut w w' q gs rs rs'

theorem FinOut.left {w0 w w' : World} {q : List WfReply} {gs : List SGroup} {rs rs' : Replies}
    (hd : Rdat w0 w) (h : FinOut w w' q gs rs rs') : FinOut w0 w' q gs rs rs' := by
  have hx := ext_of_dat hd
  cases h with
  | plain c q' h1 h2 h3 h4 => exact .plain c q' h1 h2 h3 (by simpa using hx.trans h4)
  | abort1 a q' h1 h2 h3 =>
    exact .abort1 a q' ⟨by simpa using hx.trans h1.ext, h1.st, h1.led, h1.wf⟩ h2 h3
  | abort2 a b q' h1 h2 h3 h4 h5 => exact .abort2 a b q' h1 h2 h3 h4 (by simpa using hx.trans h5)

theorem FinOut.right {w w1 w' : World} {q : List WfReply} {gs : List SGroup} {rs rs' : Replies}
    (h : FinOut w w1 q gs rs rs') (hd : Rdat w1 w') : FinOut w w' q gs rs rs' := by
  have hx := ext_of_dat hd
  cases h with
  | plain c q' h1 h2 h3 h4 => exact .plain c q' h1 h2 (h3.dat hd) (by simpa using h4.trans hx)
  | abort1 a q' h1 h2 h3 => exact .abort1 a q' (h1.dat hd) h2 h3
  | abort2 a b q' h1 h2 h3 h4 h5 => exact .abort2 a b q' h1 h2 h3 (h4.dat hd) (by simpa using h5.trans hx)

theorem finishTransfer_back {cb : Bool} {rs rs' : Replies} {w w' : World} {q : List WfReply} {gs : List SGroup}
    (h : finishTransfer cb rs w = (.ok rs', w')) (hst : St w q gs) : FinOut w w' q gs rs rs' := by
  unfold finishTransfer at h
  have abortCase : ∀ w1, St w1 q gs → (do let rs ← processAbort rs; dataDisconnect false; pure rs) w1 = (.ok rs', w') →
      FinOut w1 w' q gs rs rs' := by
    intro w1 hst1 h
    simp only [CtlL.bind_ok, CtlL.pure_ok] at h
    obtain ⟨rs2, w2, h2, _, w3, h3, rfl, rfl⟩ := h
    have hd := (dataDisconnect_dat _).of_eq h3
    rcases processAbort_back h2 hst1 with ⟨a, q', hrun, ha, hl⟩ | ⟨a, b, q', hq, ha, hl, hst2, hext⟩
    · exact FinOut.right (.abort1 a q' hrun ha hl) hd
    · exact FinOut.right (.abort2 a b q' hq ha hl hst2 hext) hd
  have plainCase : ∀ w1, St w1 q gs → (do dataDisconnect true; let __x ← recvInto rs; pure __x.snd) w1 = (.ok rs', w') →
      FinOut w1 w' q gs rs rs' := by
    intro w1 hst1 h
    simp only [CtlL.bind_ok, CtlL.pure_ok] at h
    obtain ⟨_, w2, h2, ⟨r3, rs3⟩, w3, h3, rfl, rfl⟩ := h
    have hd := (dataDisconnect_dat _).of_eq h2
    obtain ⟨c, q', hq, hr, hc, hrs, hst3, hext⟩ := recvInto_back h3 (hst1.dat hd)
    exact FinOut.left hd (.plain c q' hq (by simp [hrs]) hst3 hext)
  dsimp only at h
  cases cb
  · simp only [Bool.false_eq_true, if_false, CtlL.pure_bind_M] at h
    exact plainCase _ hst h
  · simp only [if_true, CtlL.bind_ok] at h
    obtain ⟨b, w1, h1, h⟩ := h
    have hd := poll_dat.of_eq h1
    cases b
    · simp only [Bool.false_eq_true, if_false] at h
      exact FinOut.left hd (plainCase _ (hst.dat hd) h)
    · simp only [if_true] at h
      exact FinOut.left hd (abortCase _ (hst.dat hd) h)


/-! ### the transfers -/

theorem Rdat.obs {f : Nat → Ev} (h : ∀ o, isCtl (f o) = false) : Keeps Rdat (Client.forObservers f) := by
  intro w
  refine ⟨rfl, rfl, rfl, rfl, rfl, w.observers.map f, rfl, ?_⟩
  intro e he
  obtain ⟨o, _, rfl⟩ := List.mem_map.mp he
  exact h o

theorem xferVerb_ok (v : String) (arg : Option Bytes) (h : v ∈ ["RETR", "STOR", "STOU", "APPE", "LIST", "NLST"]) :
    xIsTransfer (Spec.line v arg) = true := by
  simp only [List.mem_cons, List.not_mem_nil, or_false] at h
  unfold xIsTransfer
  rcases h with rfl | rfl | rfl | rfl | rfl | rfl <;> (rw [verb_line _ _ (by decide)]; decide)

/-- what a transfer call is, once the set-up has been analysed -/
theorem xfer_assemble {w w1 w' : World} {gs : List SGroup} {setup cmd : Bytes} {T : List (Bytes × WfReply)}
    {q2 : List WfReply} {rs1 rs : Replies} {ready : Bool}
    (hs : LineOk setup) (hc : xIsTransfer cmd = true) (hl : rs1.list = T.map (fun t => replyOf t.2))
    (hrun : Run w w1 [] q2 gs T) (hsh : CdcShape setup cmd ready T)
    (hneg : ready = false → rs = rs1 ∧ Rdat w1 w')
    (hpos : ready = true → FinOut w1 w' q2 (gs.drop T.length) rs1 rs) :
    ∃ D q', Dlg w w' (gen gs D.length) D q' ∧ rs.list = (consumedOf D).map replyOf ∧
      D.map (·.1) = (D.filterMap (·.1)).map some := by
  rcases hsh with ⟨x, rfl, hx, hr⟩ | ⟨x, y, rfl, hx, hr⟩
  · obtain ⟨rfl, hd⟩ := hneg hr
    refine ⟨ones [(setup, x)], q2, ?_, by simp [hl, consumedOf, ones], by simp [ones]⟩
    exact Dlg.ofRun (hrun.dat hd) (by intro t ht; simp only [List.mem_singleton] at ht; subst ht; exact hs)
  · by_cases hy : y.code < 400
    · have hr' : ready = true := by simp [hr, hy]
      have hfin := hpos hr'
      cases hfin with
      | plain c q3 hq hl3 hst3 hext =>
        exact ⟨[(some setup, [x]), (some cmd, [y, c])], q3, Dlg.done hrun hext hq hst3.sync hs hc hy,
          by simp [hl3, hl, consumedOf], by simp⟩
      | abort1 a q3 hrunA ha hl3 =>
        exact ⟨[(some setup, [x]), (some cmd, [y]), (some xABOR, [a])], q3,
          Dlg.abort1 (hrun.trans hrunA) hs hc hy ha, by simp [hl3, hl, consumedOf], by simp⟩
      | abort2 a b q4 hq ha hl3 hst3 hext =>
        exact ⟨[(some setup, [x]), (some cmd, [y]), (some xABOR, [a, b])], q4,
          Dlg.abort2 hrun hext hq hst3.sync hs hc hy ha, by simp [hl3, hl, consumedOf], by simp⟩
    · have hr' : ready = false := by simp [hr, hy]
      obtain ⟨rfl, hd⟩ := hneg hr'
      exact ⟨[(some setup, [x]), (some cmd, [y])], q2, Dlg.mainNeg (hrun.dat hd) hs hc (by omega),
        by simp [hl, consumedOf], by simp⟩

theorem xfer_dlg {verb : String} {arg : Option Bytes} {cb : Bool} {mv : TType → M Unit}
    (hk : ∀ t, Keeps Rdat (mv t)) (hv : xIsTransfer (Spec.line verb arg) = true) {w w' : World} {rs : Replies}
    {gs : List SGroup}
    (h : withScope (do
      let c ← mkCmd verb arg
      let (ready, rs) ← createDataConnection c Replies.empty
      if ready then
        let w ← getW
        mv w.ttype
        finishTransfer cb rs
      else pure rs) destroyConn w = (.ok rs, w')) (hst : St w [] gs) :
    ∃ D q', Dlg w w' (gen gs D.length) D q' ∧ rs.list = (consumedOf D).map replyOf ∧
      D.map (·.1) = (D.filterMap (·.1)).map some := by
  obtain ⟨w4, _, h, hd⟩ := withScope_ok h
  have hdd := destroyConn_dat.of_eq hd
  simp only [CtlL.bind_ok] at h
  obtain ⟨c, w0, hc, ⟨ready, rs1⟩, w1, h1, h⟩ := h
  obtain ⟨mc, e⟩ := mkCmd_ok hc; subst w0
  have ec := makeCommand_line _ _ _ mc
  subst ec
  obtain ⟨setup, T, q2, hs, hl, hrun, hsh⟩ := createDataConnection_back h1 hst
  simp only [Replies.empty, List.nil_append] at hl
  dsimp only at h
  refine xfer_assemble hs hv hl hrun hsh ?_ ?_
  · intro hr
    subst hr
    simp only [Bool.false_eq_true, if_false, CtlL.pure_ok] at h
    obtain ⟨rfl, rfl⟩ := h
    exact ⟨rfl, hdd⟩
  · intro hr
    subst hr
    simp only [if_true, CtlL.bind_ok, CtlL.getW_ok] at h
    obtain ⟨wa, wb, ⟨e, e'⟩, _, w2, h2, h3⟩ := h
    subst e'; subst e
    have hd2 := (hk _).of_eq h2
    exact FinOut.right (FinOut.left hd2 (finishTransfer_back h3 (hrun.st.dat hd2))) hdd

theorem fileList_dlg {path : Option Bytes} {names : Bool} {w w' : World} {rs : Replies} {text : Bytes}
    {gs : List SGroup} (h : fileList path names w = (.ok (rs, text), w')) (hst : St w [] gs) :
    ∃ D q', Dlg w w' (gen gs D.length) D q' ∧ rs.list = (consumedOf D).map replyOf ∧
      D.map (·.1) = (D.filterMap (·.1)).map some := by
  unfold fileList at h
  obtain ⟨w4, _, h, hd⟩ := withScope_ok h
  have hdd := destroyConn_dat.of_eq hd
  simp only [CtlL.bind_ok] at h
  obtain ⟨c, w0, hc, ⟨ready, rs1⟩, w1, h1, h⟩ := h
  obtain ⟨mc, e⟩ := mkCmd_ok hc; subst w0
  have ec := makeCommand_line _ _ _ mc
  subst ec
  obtain ⟨setup, T, q2, hs, hl, hrun, hsh⟩ := createDataConnection_back h1 hst
  simp only [Replies.empty, List.nil_append] at hl
  have hv : xIsTransfer (Spec.line (if names = true then "NLST" else "LIST") path) = true := by
    cases names <;> exact xferVerb_ok _ _ (by simp)
  dsimp only at h
  refine xfer_assemble (rs1 := rs1) hs hv hl hrun hsh ?_ ?_
  · intro hr
    subst hr
    simp only [Bool.false_eq_true, if_false, CtlL.pure_ok, Prod.mk.injEq] at h
    obtain ⟨⟨rfl, rfl⟩, rfl⟩ := h
    exact ⟨rfl, hdd⟩
  · intro hr
    subst hr
    simp only [if_true, CtlL.bind_ok, CtlL.getW_ok, CtlL.pure_ok, Prod.mk.injEq] at h
    obtain ⟨wa, wb, ⟨e, e'⟩, _, w2, h2, _, w3, h3, wc, wd, ⟨e2, e2'⟩, _, w5, h5, _, w6, h6, _, w7, h7,
      ⟨r8, rs8⟩, w8, h8, ⟨rfl, rfl⟩, rfl⟩ := h
    subst e'; subst e; subst e2'; subst e2
    have d2 : Rdat wa w2 := by
      have := CtlL.modifyW_ok.mp h2; subst this
      exact ⟨rfl, rfl, rfl, rfl, rfl, [], by simp, by simp⟩
    have d3 := (dataRecv_dat _ _).of_eq h3
    have d5 := (Rdat.emit (e := .listing wc.sink) rfl).of_eq h5
    have d6 := (Rdat.obs (f := fun o => Ev.obsFileList o wc.sink) (fun _ => rfl)).of_eq h6
    have d7 := (dataDisconnect_dat _).of_eq h7
    have dall : Rdat wa w7 := IsPre.trans (IsPre.trans (IsPre.trans (IsPre.trans d2 d3) d5) d6) d7
    obtain ⟨c, q3, hq, hr, hcw, hrs, hst8, hext⟩ := recvInto_back h8 (hrun.st.dat dall)
    exact FinOut.right (FinOut.left dall (.plain c q3 hq (by simp [hrs]) hst8 hext)) hdd

/-! ### `connect` -/

theorem ext_openW (h : Bytes) (p : Nat) (w : World) : Ext w (openW h p w) [] [] := by
  refine ⟨(if w.connected then [.ctlClose] else []) ++ [.ctlConnect h p] ++
    w.observers.map (fun o => Ev.obsConnected o h p), by simp [openW], ?_, ?_⟩
  · apply DataL.writes_eq_nil
    intro e he b
    simp only [List.mem_append, List.mem_singleton, List.mem_map] at he
    rcases he with (he | rfl) | ⟨o, _, rfl⟩
    · split at he
      · simp only [List.mem_singleton] at he; subst he; simp
      · cases he
    · simp
    · simp
  · apply DataL.received_eq_nil
    intro e he c t
    simp only [List.mem_append, List.mem_singleton, List.mem_map] at he
    rcases he with (he | rfl) | ⟨o, _, rfl⟩
    · split at he
      · simp only [List.mem_singleton] at he; subst he; simp
      · cases he
    · simp
    · simp

theorem connect_dlg {hh : Bytes} {p : Nat} {cred : Option (Bytes × Bytes)} {w w' : World} {rs : Replies}
    {gs : List SGroup} (h : connect hh p cred w = (.ok rs, w')) (hsc : w.script = gs.map SGroup.enc)
    (hwf : WfScript gs) :
    ∃ g gs' D q', gs = g :: gs' ∧ Dlg w w' (g.replies :: gen gs' (D.length - 1)) D q' ∧
      rs.list = (consumedOf D).map replyOf ∧ D.map (·.1) = none :: (D.filterMap (·.1)).map some := by
  rw [CtlL.connect_eq] at h
  simp only [CtlL.bind_ok] at h
  obtain ⟨_, w0, h0, ⟨r, rs1⟩, w1, h1, h2⟩ := h
  have := CtlL.connectCheck_ok h0; subst this
  rw [connectCore_run] at h1
  have hx0 := ext_openW hh p w0
  rcases gs with _ | ⟨g, gs'⟩
  · exfalso
    have hs0 : St (openW hh p w0) [] [] := by
      refine ⟨⟨.inl ?_, ?_, by simp⟩, ?_, hwf⟩
      · simp [openW, hsc, streamOf]
      · show ([] : Bytes).length ≤ _; simp
      · simp [openW, hsc]
    unfold greet at h1
    simp only [CtlL.bind_ok] at h1
    obtain ⟨⟨ra, rsa⟩, wa, ha, _⟩ := h1
    obtain ⟨x, q', hq, _⟩ := recvInto_back ha hs0
    cases hq
  · refine ⟨g, gs', ?_⟩
    obtain ⟨hsy, hscr, _⟩ := sync_openW hh p w0 g gs' (hwf g (List.mem_cons_self ..)) hsc
    have hs0 : St (openW hh p w0) g.replies gs' := ⟨hsy, hscr, fun g hg => hwf g (List.mem_cons_of_mem _ hg)⟩
    -- the greeting
    have hgreet : ∃ pre q1, Pat [(none, pre)] ∧ g.replies = pre ++ q1 ∧ St w1 q1 gs' ∧
        Ext (openW hh p w0) w1 [] (pre.map replyOf) ∧ rs1.list = pre.map replyOf ∧ (∃ z, pre.getLast? = some z ∧ r = replyOf z ∧ z.wf) := by
      unfold greet at h1
      simp only [CtlL.bind_ok] at h1
      obtain ⟨⟨ra, rsa⟩, wa, ha, h1⟩ := h1
      obtain ⟨x, q1, hq, hra, hxw, hrsa, hsta, hexta⟩ := recvInto_back ha hs0
      subst hrsa hra
      dsimp only at h1
      split at h1
      · rename_i h120
        have h120 : x.code = 120 := by simpa [replyOf] using h120
        obtain ⟨y, q2, hq2, hrb, hyw, hrsb, hstb, hextb⟩ := recvInto_back h1 hsta
        subst hrsb hrb hq2
        exact ⟨[x, y], q2, Pat.greet2 x y [] h120 Pat.nil, by simp [hq], hstb, by simpa using hexta.trans hextb,
          by simp [Replies.empty], y, rfl, rfl, hyw⟩
      · rename_i h120
        have h120 : x.code ≠ 120 := by simpa [replyOf] using h120
        simp only [CtlL.pure_ok, Prod.mk.injEq] at h1
        obtain ⟨⟨rfl, rfl⟩, rfl⟩ := h1
        exact ⟨[x], q1, Pat.greet1 x [] h120 Pat.nil, by simp [hq], hsta, by simpa using hexta,
          by simp [Replies.empty], x, rfl, rfl, hxw⟩
    obtain ⟨pre, q1, hpat, hg, hst1, hext1, hl1, z, hz, hrz, hzw⟩ := hgreet
    -- the login
    have hlogin : ∃ T q', rs.list = rs1.list ++ T.map (fun t => replyOf t.2) ∧ Run w1 w' q1 q' gs' T ∧
        ∀ t ∈ T, LineOk t.1 := by
      unfold connectTail at h2
      dsimp only at h2
      split at h2
      · simp only [CtlL.pure_ok] at h2
        obtain ⟨rfl, rfl⟩ := h2
        exact ⟨[], q1, by simp, Run.nil hst1, by simp⟩
      · rcases cred with _ | ⟨u, pw⟩
        · simp only [CtlL.pure_ok] at h2
          obtain ⟨rfl, rfl⟩ := h2
          exact ⟨[], q1, by simp, Run.nil hst1, by simp⟩
        · simp only [CtlL.bind_ok, CtlL.pure_ok] at h2
          obtain ⟨⟨r3, rs3⟩, w3, h3, rfl, rfl⟩ := h2
          exact processLogin_run h3 hst1
    obtain ⟨T, q', hl, hrun, hok⟩ := hlogin
    refine ⟨(none, pre) :: ones T, q', rfl, ⟨?_, ?_, hrun.st.sync, ?_, ?_⟩, ?_, ?_⟩
    · cases hpat with
      | greet1 x _ h120 _ => exact Pat.greet1 x _ h120 (by simpa using pat_ones T hok Pat.nil)
      | greet2 x y _ h120 _ => exact Pat.greet2 x y _ h120 (by simpa using pat_ones T hok Pat.nil)
    · have := (hx0.trans hext1).trans hrun.ext
      have e1 : linesOf ((none, pre) :: ones T) = T.map (·.1 ++ CRLF) := by
        have := linesOf_ones T
        simpa [linesOf] using this
      have e2 : consumedOf ((none, pre) :: ones T) = pre ++ T.map (·.2) := by
        have := consumedOf_ones T
        simp only [consumedOf, List.map_cons, List.flatten_cons] at this ⊢
        rw [this]
      rw [e1, e2]
      simpa [List.map_map, Function.comp_def] using this
    · simp [gen_length, ones]
    · have e2 : consumedOf ((none, pre) :: ones T) = pre ++ T.map (·.2) := by
        have := consumedOf_ones T
        simp only [consumedOf, List.map_cons, List.flatten_cons] at this ⊢
        rw [this]
      have hled := hrun.led
      have : (ones T).length = T.length := by simp [ones]
      simp only [List.length_cons, this, Nat.add_sub_cancel, List.flatten_cons, e2, hg, List.append_assoc, hled]
    · have e2 : consumedOf ((none, pre) :: ones T) = pre ++ T.map (·.2) := by
        have := consumedOf_ones T
        simp only [consumedOf, List.map_cons, List.flatten_cons] at this ⊢
        rw [this]
      rw [hl, hl1, e2]
      simp [List.map_map, Function.comp_def]
    · simp [ones, List.filterMap_map, Function.comp_def, List.map_map]


/-! ### every call -/

/-- the library's own verbs (mirror of `C02.opOk`) -/
def xOpOk : Op → Prop
  | .simple v _ => v ∈ ["CWD", "CDUP", "PWD", "DELE", "MKD", "RMD", "SIZE", "MDTM", "STAT", "SYST", "HELP", "SITE", "NOOP"]
  | .upload v _ _ => v ∈ ["STOR", "STOU", "APPE"]
  | _ => True

theorem lineOk_simple (v : String) (a : Option Bytes)
    (h : v ∈ ["CWD", "CDUP", "PWD", "DELE", "MKD", "RMD", "SIZE", "MDTM", "STAT", "SYST", "HELP", "SITE", "NOOP"]) :
    LineOk (Spec.line v a) := by
  simp only [List.mem_cons, List.not_mem_nil, or_false] at h
  rcases h with rfl | rfl | rfl | rfl | rfl | rfl | rfl | rfl | rfl | rfl | rfl | rfl | rfl <;>
    exact lineOk_line _ (by decide) (by decide) (by decide)

theorem ones_fst (T : List (Bytes × WfReply)) : (ones T).map (·.1) = ((ones T).filterMap (·.1)).map some := by
  induction T with
  | nil => rfl
  | cons t T ih => simp_all [ones]

theorem Dlg.ofRun' {w w' : World} {q' : List WfReply} {gs : List SGroup} {T : List (Bytes × WfReply)} {rl : List Reply}
    (hrun : Run w w' [] q' gs T) (hok : ∀ t ∈ T, LineOk t.1) (hl : rl = T.map (fun t => replyOf t.2)) :
    ∃ D q', Dlg w w' (gen gs D.length) D q' ∧ rl = (consumedOf D).map replyOf ∧
      D.map (·.1) = (D.filterMap (·.1)).map some := by
  refine ⟨ones T, q', ?_, ?_, ones_fst T⟩
  · have : (ones T).length = T.length := by simp [ones]
    rw [this]
    exact Dlg.ofRun hrun hok
  · rw [consumedOf_ones, List.map_map, hl]
    rfl

theorem run_dlg (op : Op) (hne : ∀ h p c, op ≠ .connect h p c) (hop : xOpOk op) {w w' : World} {gs : List SGroup}
    {o : Out} (hst : St w [] gs) (h : op.run w = (.ok o, w')) :
    ∃ D q', Dlg w w' (gen gs D.length) D q' ∧ o.replyList = (consumedOf D).map replyOf ∧
      D.map (·.1) = (D.filterMap (·.1)).map some := by
  have one : ∀ (c : Bytes) (x : WfReply), LineOk c → ∀ t ∈ [(c, x)], LineOk t.1 := by
    intro c x hc t ht; simp only [List.mem_singleton] at ht; subst ht; exact hc
  cases op with
  | connect hh p c => exact absurd rfl (hne hh p c)
  | login u p =>
    simp only [Op.run, CtlL.bind_ok, CtlL.pure_ok] at h
    obtain ⟨rs, w1, h1, rfl, rfl⟩ := h
    obtain ⟨T, q', hl, hrun, hok⟩ := login_run h1 hst
    exact Dlg.ofRun' hrun hok hl
  | logout =>
    simp only [Op.run, CtlL.bind_ok, CtlL.pure_ok] at h
    obtain ⟨r, w1, h1, rfl, rfl⟩ := h
    unfold logout at h1
    obtain ⟨x, q', hr, hrun⟩ := simple_run h1 hst
    exact Dlg.ofRun' hrun (one _ _ (lineOk_line (v := "REIN") none (by decide) (by decide) (by decide)))
      (by simp [Out.replyList, hr])
  | simple v a =>
    simp only [Op.run, CtlL.bind_ok, CtlL.pure_ok] at h
    obtain ⟨r, w1, h1, rfl, rfl⟩ := h
    obtain ⟨x, q', hr, hrun⟩ := simple_run h1 hst
    exact Dlg.ofRun' hrun (one _ _ (lineOk_simple v a hop)) (by simp [Out.replyList, hr])
  | setType t =>
    simp only [Op.run, CtlL.bind_ok, CtlL.pure_ok] at h
    obtain ⟨r, w1, h1, rfl, rfl⟩ := h
    obtain ⟨x, q', hr, hrun⟩ := setTransferType_run h1 hst
    exact Dlg.ofRun' hrun (one _ _ (lineOk_type t)) (by simp [Out.replyList, hr])
  | rename a b =>
    simp only [Op.run, CtlL.bind_ok, CtlL.pure_ok] at h
    obtain ⟨rs, w1, h1, rfl, rfl⟩ := h
    obtain ⟨T, q', hl, hrun, hok⟩ := rename_run h1 hst
    exact Dlg.ofRun' hrun hok hl
  | download p cb =>
    simp only [Op.run, CtlL.bind_ok, CtlL.pure_ok] at h
    obtain ⟨rs, w1, h1, rfl, rfl⟩ := h
    unfold download at h1
    exact xfer_dlg (mv := fun t => dataRecv cb t) (fun t => dataRecv_dat cb t)
      (xferVerb_ok "RETR" _ (by simp)) h1 hst
  | upload v p cb =>
    simp only [Op.run, CtlL.bind_ok, CtlL.pure_ok] at h
    obtain ⟨rs, w1, h1, rfl, rfl⟩ := h
    unfold upload at h1
    refine xfer_dlg (mv := fun t => dataSend cb t) (fun t => dataSend_dat cb t) (xferVerb_ok v _ ?_) h1 hst
    simp only [xOpOk, List.mem_cons, List.not_mem_nil, or_false] at hop
    rcases hop with rfl | rfl | rfl <;> simp
  | list p n =>
    simp only [Op.run, CtlL.bind_ok, CtlL.pure_ok] at h
    obtain ⟨⟨rs, text⟩, w1, h1, rfl, rfl⟩ := h
    exact fileList_dlg h1 hst
  | disconnect g =>
    simp only [Op.run, CtlL.bind_ok, CtlL.pure_ok] at h
    obtain ⟨r, w1, h1, rfl, rfl⟩ := h
    obtain ⟨T, q', hl, hrun, hok⟩ := disconnect_run h1 hst
    exact Dlg.ofRun' hrun hok hl

end Ftp.Client.SessL
