import Ftp.Lemmas.ClientTls
import Ftp.Lemmas.ClientData
/-
  State-aware walk through a transfer of the TLS layer (`Ftp.ClientTls.uploadT`), used by C04t: after a successful
  data handshake the data socket is an ssl_socket (`dataTls = true`) and open, so that the end of the transfer is
  close-notify, TCP shutdown, close - and only then the read of the completion reply.
-/
namespace Ftp.ClientTls.X
open Ftp Ftp.Client Ftp.ClientTls Ftp.Endpoint Ftp.ClientTls.L

/-! ## plain layer: programs that leave the `data_connection` object alone -/

def KC {α} (m : M α) : Prop := ∀ b, (m b).2.conn = b.conn

theorem kc_pure {α} (a : α) : KC (pure a : M α) := fun _ => rfl
theorem kc_throwE {α} : KC (throwE : M α) := fun _ => rfl
theorem kc_getW : KC getW := fun _ => rfl
theorem kc_modifyW {f : World → World} (hf : ∀ b, (f b).conn = b.conn) : KC (modifyW f) := hf
theorem kc_emit (e : Ev) : KC (emit e) := fun _ => rfl
theorem kc_forObservers (f : Nat → Ev) : KC (forObservers f) := fun _ => rfl

theorem kc_bind {α β} {m : M α} {f : α → M β} (h1 : KC m) (h2 : ∀ a, KC (f a)) : KC (m >>= f) := by
  intro b
  rw [bindP_eq]
  have h := h1 b
  rcases hm : m b with ⟨r, b1⟩
  rw [hm] at h
  cases r with
  | throw => exact h
  | ok a => exact (h2 a b1).trans h

macro "kc_step" : tactic => `(tactic| first
  | exact kc_pure _
  | exact kc_throwE
  | exact kc_getW
  | assumption
  | exact kc_emit _
  | exact kc_forObservers _
  | (apply kc_modifyW; intro _; rfl)
  | (refine kc_bind ?_ (fun _ => ?_))
  | split
  | dsimp only)

syntax "kc" ("[" term,* "]")? : tactic
macro_rules
  | `(tactic| kc) => `(tactic| repeat kc_step)
  | `(tactic| kc [$ts,*]) => do
    let alts ← ts.getElems.mapM fun t => `(tactic| with_reducible apply $t)
    `(tactic| repeat (first $[| $alts:tactic]* | kc_step))

theorem ctlSend_kc (cmd : Bytes) : KC (ctlSend cmd) := by
  unfold ctlSend; kc

theorem ctlClose_kc : KC ctlClose := by
  unfold ctlClose; kc

theorem ctlRecv_kc : KC ctlRecv := by
  unfold ctlRecv; kc [ctlClose_kc]

theorem recvInto_kc (rs : Replies) : KC (recvInto rs) := by
  unfold recvInto; kc [ctlRecv_kc]

theorem processCommandInto_kc (cmd : Bytes) (rs : Replies) : KC (processCommandInto cmd rs) := by
  unfold processCommandInto; kc [ctlSend_kc, recvInto_kc]

theorem poll_kc : KC poll := by
  unfold poll; kc

theorem srcRead_kc (n : Nat) : KC (srcRead n) := by
  unfold srcRead; kc

theorem dataWrite_kc (d : Nat) (block : Bytes) : KC (Client.dataWrite d block) := by
  unfold Client.dataWrite; kc

theorem sendLoopBin_kc (cb : Bool) (d : Nat) : ∀ fuel : Nat, KC (sendLoopBin cb d fuel) := by
  intro fuel
  induction fuel with
  | zero => unfold sendLoopBin; kc
  | succ n ih => unfold sendLoopBin; kc [srcRead_kc, dataWrite_kc, poll_kc, ih]

theorem sendLoopAscii_kc (cb : Bool) (d : Nat) : ∀ (fuel : Nat) (st : Ascii.IState), KC (sendLoopAscii cb d fuel st) := by
  intro fuel
  induction fuel with
  | zero => intro _; unfold sendLoopAscii; kc
  | succ n ih => intro st; unfold sendLoopAscii; kc [dataWrite_kc, poll_kc, ih]

theorem dataSend_kc (cb : Bool) (t : TType) : KC (dataSend cb t) := by
  unfold dataSend; kc [sendLoopBin_kc, sendLoopAscii_kc, poll_kc]

/-! ## plain layer: what happens to the `data_connection` object -/

theorem dataConnect_sock (addr : Bytes) (port : Nat) (b : World) (h : (dataConnect addr port b).1 = .ok ()) :
    ∃ d, (dataConnect addr port b).2.conn = some { sock := some d, acc := none } := by
  revert h
  unfold dataConnect newDescriptor closeD
  msimp
  cases b.connectOks.head?.getD false with
  | true => msimp; intro _; exact ⟨_, rfl⟩
  | false => msimp; intro h; cases h

theorem dataAccept_sock (b : World) (h : (dataAccept b).1 = .ok ()) :
    ∃ d a, (dataAccept b).2.conn = some { sock := some d, acc := a } := by
  revert h
  unfold dataAccept
  msimp
  rcases b.conn with _ | ⟨sock, acc⟩
  · msimp; intro h; cases h
  · rcases acc with _ | a
    · msimp; intro h; cases h
    · msimp; intro _; exact ⟨_, _, rfl⟩

/-- a graceful disconnect of an open data connection that reports no error: shutdown, close (and the close of the
    listening descriptor in active mode) -/
theorem dataDisconnect_true_trace (b : World) (d : Nat) (a : Option Nat)
    (hc : b.conn = some { sock := some d, acc := a }) (hr : (dataDisconnect true b).1 = .ok ()) :
    (dataDisconnect true b).2.trace = b.trace ++ ([.dataShutdown d, .dataClose d] ++ a.toList.map Ev.dataClose) := by
  revert hr
  unfold dataDisconnect
  msimp [hc, Ftp.Client.DataL.closeD_bind]
  rcases a with _ | a <;>
    cases hcf : b.closeFails.head?.getD false <;> cases hcf2 : b.closeFails.tail.head?.getD false <;>
    msimp [Ftp.Client.DataL.closeD_bind, hcf, hcf2] <;> intro h <;> first | (cases h; done) | simp

/-! ## TLS layer -/

/-- only lifted events of the plain model -/
def EvOnly (evs : List EvT) : Prop := ∀ e ∈ evs, ∃ t e0, e = EvT.ev t e0
def NoTS (evs : List EvT) : Prop := ∀ e ∈ evs, ∀ d, e ≠ EvT.dataTlsShutdown d
def NoHsOk (evs : List EvT) : Prop := ∀ d o, EvT.dataTlsHandshake d o true ∉ evs
/-- the data socket of the operation is open -/
def HasSock (w : WorldT) : Prop := ∃ d a, w.base.conn = some { sock := some d, acc := a }

theorem evOnly_nil : EvOnly [] := by simp [EvOnly]
theorem evOnly_append {a b : List EvT} (ha : EvOnly a) (hb : EvOnly b) : EvOnly (a ++ b) := by
  intro e he
  rcases List.mem_append.1 he with h | h
  · exact ha e h
  · exact hb e h
theorem evOnly_map (t : Bool) (evs : List Ev) : EvOnly (evs.map (EvT.ev t)) := by
  intro e he
  obtain ⟨e0, _, rfl⟩ := List.mem_map.1 he
  exact ⟨t, e0, rfl⟩
theorem evOnly_noTS {evs : List EvT} (h : EvOnly evs) : NoTS evs := by
  intro e he d hd
  obtain ⟨t, e0, h0⟩ := h e he
  rw [h0] at hd; cases hd
theorem evOnly_noHsOk {evs : List EvT} (h : EvOnly evs) : NoHsOk evs := by
  intro d o hm
  obtain ⟨t, e0, h0⟩ := h _ hm
  cases h0
theorem noTS_append {a b : List EvT} (ha : NoTS a) (hb : NoTS b) : NoTS (a ++ b) := by
  intro e he
  rcases List.mem_append.1 he with h | h
  · exact ha e h
  · exact hb e h
theorem noHsOk_append {a b : List EvT} (ha : NoHsOk a) (hb : NoHsOk b) : NoHsOk (a ++ b) := by
  intro d o he
  rcases List.mem_append.1 he with h | h
  · exact ha d o h
  · exact hb d o h

/-- a lifted program, whatever the branch `lift` takes: lifted events only, the SSL state of the data socket is kept;
    when it returns, it returns what the plain program returns, in the world the plain program leaves -/
theorem lift_gen {α} (m : M α) (w : WorldT) :
    SatT (lift m) w (fun r w' evs =>
      EvOnly evs ∧ w'.dataTls = w.dataTls ∧
      (∀ a, r = .ok a → (m { w.base with trace := [] }).1 = .ok a ∧
         w'.base = { (m { w.base with trace := [] }).2 with trace := w.base.trace } ∧
         evs = (m { w.base with trace := [] }).2.trace.map (EvT.ev w.ctlTls))) := by
  rw [SatT, lift_eq]
  cases hb : brk w (m { w.base with trace := [] }).2.trace with
  | some x =>
    obtain ⟨pre, cmd⟩ := x
    exact ⟨_, rfl, evOnly_map _ _, rfl, fun a h => by cases h⟩
  | none =>
    dsimp only
    cases hc : closeF w (m { w.base with trace := [] }).2 with
    | true => exact ⟨_, rfl, evOnly_map _ _, rfl, fun a h => by cases h⟩
    | false => exact ⟨_, rfl, evOnly_map _ _, rfl, fun a h => ⟨h, rfl, rfl⟩⟩

/-- ... of a program that leaves the `data_connection` object alone -/
theorem lift_kc {α} {m : M α} (hk : KC m) (w : WorldT) :
    SatT (lift m) w (fun r w' evs => EvOnly evs ∧ w'.dataTls = w.dataTls ∧
      (∀ a, r = .ok a → w'.base.conn = w.base.conn)) := by
  apply (lift_gen m w).mono
  intro r w' evs ⟨h1, h2, h3⟩
  refine ⟨h1, h2, fun a ha => ?_⟩
  obtain ⟨_, hb, _⟩ := h3 a ha
  rw [hb]
  exact hk _

theorem pciT_kc (cmd : Bytes) (rs : Replies) (w : WorldT) :
    SatT (processCommandIntoT cmd rs) w (fun r w' evs => EvOnly evs ∧ w'.dataTls = w.dataTls ∧
      (∀ a, r = .ok a → w'.base.conn = w.base.conn)) :=
  lift_kc (processCommandInto_kc cmd rs) w

/-! ### data-connection set-up: no close-notify, and a successful handshake leaves a protected open data socket -/

def CP (r : Res (Bool × Replies)) (w1 : WorldT) (e1 : List EvT) : Prop :=
  NoTS e1 ∧ (NoHsOk e1 ∨ ((∃ rs', r = .ok (true, rs')) ∧ w1.dataTls = true ∧ HasSock w1))

theorem cp_quiet {r : Res (Bool × Replies)} {w : WorldT} {evs : List EvT} (h : EvOnly evs) : CP r w evs :=
  ⟨evOnly_noTS h, Or.inl (evOnly_noHsOk h)⟩

theorem cp_prefix {r : Res (Bool × Replies)} {w : WorldT} {e1 e2 : List EvT} (h1 : EvOnly e1) (h2 : CP r w e2) :
    CP r w (e1 ++ e2) := by
  obtain ⟨hts, hc⟩ := h2
  refine ⟨noTS_append (evOnly_noTS h1) hts, ?_⟩
  rcases hc with hc | hc
  · exact Or.inl (noHsOk_append (evOnly_noHsOk h1) hc)
  · exact Or.inr hc

theorem cp_bind {α} {m : MT α} {f : α → MT (Bool × Replies)} {w : WorldT} (R : α → WorldT → Prop)
    (h1 : SatT m w (fun r w' evs => EvOnly evs ∧ ∀ a, r = .ok a → R a w'))
    (h2 : ∀ a w', R a w' → SatT (f a) w' CP) : SatT (m >>= f) w CP := by
  apply SatT.bind
  apply h1.mono
  intro r w1 e1 ⟨he1, hR⟩
  cases r with
  | throw => exact cp_quiet he1
  | ok a =>
    apply (h2 a w1 (hR a rfl)).mono
    intro r2 w2 e2 hcp
    exact cp_prefix he1 hcp

theorem cp_pure_false (rs : Replies) (w : WorldT) : SatT (pure (false, rs) : MT (Bool × Replies)) w CP :=
  SatT.pure (cp_quiet evOnly_nil)

theorem cp_throwT (w : WorldT) : SatT (throwT : MT (Bool × Replies)) w CP :=
  SatT.throwT (cp_quiet evOnly_nil)

theorem dataHandshake_st (w : WorldT) :
    SatT dataHandshake w (fun r w' evs => w'.base = w.base ∧ NoTS evs ∧
      (NoHsOk evs ∨ (r = .ok () ∧ w'.dataTls = true))) := by
  unfold dataHandshake nextHandshake
  wpt
  split
  · wpt
    split
    · rename_i hok
      wpt
      refine ⟨rfl, ?_, Or.inl ?_⟩
      · intro e he d hd
        simp at he
        rw [he] at hd; cases hd
      · intro d o hm
        simp at hm
        simp [hm.2.2] at hok
    · wpt
      refine ⟨rfl, ?_, Or.inr ⟨rfl, rfl⟩⟩
      intro e he d hd
      simp at he
      rw [he] at hd; cases hd
  · wpt
    exact ⟨rfl, evOnly_noTS evOnly_nil, Or.inl (evOnly_noHsOk evOnly_nil)⟩

theorem hs_tail (rs : Replies) (w : WorldT) (hw : HasSock w) :
    SatT (do dataHandshake; pure (true, rs) : MT (Bool × Replies)) w CP := by
  apply SatT.bind
  apply (dataHandshake_st w).mono
  intro r w' evs ⟨hb, hts, hc⟩
  cases r with
  | throw =>
    refine ⟨hts, Or.inl ?_⟩
    rcases hc with h | ⟨h, _⟩
    · exact h
    · cases h
  | ok u =>
    dsimp only
    apply SatT.pure
    rw [List.append_nil]
    refine ⟨hts, ?_⟩
    rcases hc with h | ⟨_, hd⟩
    · exact Or.inl h
    · refine Or.inr ⟨⟨rs, rfl⟩, hd, ?_⟩
      unfold HasSock
      rw [hb]
      exact hw

/-- the last segment of every set-up: the transfer command, on a non-negative reply (the accept in active mode and)
    the handshake -/
theorem cp_final (Pre : WorldT → Prop) (hPre : ∀ w w' : WorldT, w'.base.conn = w.base.conn → Pre w → Pre w')
    (cmd : Bytes) (rs : Replies) (G : MT Unit) (f : Reply × Replies → MT (Bool × Replies))
    (hG : ∀ w, Pre w → SatT G w (fun r w' evs => EvOnly evs ∧ (r = .ok () → HasSock w')))
    (hpos : ∀ rep rs', rep.isNegative = false → f (rep, rs') = (do G; dataHandshake; pure (true, rs')))
    (hneg : ∀ rep rs' w, rep.isNegative = true → SatT (f (rep, rs')) w CP) (w : WorldT) (hw : Pre w) :
    SatT (processCommandIntoT cmd rs >>= f) w CP := by
  refine cp_bind (fun _ w' => Pre w') ?_ ?_
  · apply (pciT_kc cmd rs w).mono
    intro r w' evs ⟨h1, _, h3⟩
    exact ⟨h1, fun a ha => hPre _ _ (h3 a ha) hw⟩
  · rintro ⟨rep, rs'⟩ w1 hw'
    cases hn : rep.isNegative with
    | true => exact hneg rep rs' w1 hn
    | false =>
      rw [hpos rep rs' hn]
      refine cp_bind (fun _ w'' => HasSock w'') ?_ ?_
      · apply (hG w1 hw').mono
        intro r w'' evs ⟨h1, h2⟩
        exact ⟨h1, fun a ha => h2 ha⟩
      · intro _ w'' hw''
        exact hs_tail rs' w'' hw''

theorem hasSock_conn (w w' : WorldT) (h : w'.base.conn = w.base.conn) (hw : HasSock w) : HasSock w' := by
  unfold HasSock at *
  rw [h]; exact hw

theorem lift_quiet {α} (m : M α) (w : WorldT) :
    SatT (lift m) w (fun r _ evs => EvOnly evs ∧ ∀ a, r = .ok a → True) :=
  (lift_gen m w).mono fun _ _ _ h => ⟨h.1, fun _ _ => trivial⟩

theorem lift_dataConnect (addr : Bytes) (port : Nat) (w : WorldT) :
    SatT (lift (dataConnect addr port)) w (fun r w' evs => EvOnly evs ∧ ∀ a, r = .ok a → HasSock w') := by
  apply (lift_gen _ w).mono
  intro r w' evs ⟨h1, _, h3⟩
  refine ⟨h1, fun a ha => ?_⟩
  obtain ⟨hr, hb, _⟩ := h3 a ha
  obtain ⟨d, hd⟩ := dataConnect_sock addr port _ hr
  exact ⟨d, none, by rw [hb]; exact hd⟩

theorem lift_dataAccept (w : WorldT) :
    SatT (lift dataAccept) w (fun r w' evs => EvOnly evs ∧ (r = .ok () → HasSock w')) := by
  apply (lift_gen _ w).mono
  intro r w' evs ⟨h1, _, h3⟩
  refine ⟨h1, fun ha => ?_⟩
  obtain ⟨hr, hb, _⟩ := h3 () ha
  obtain ⟨d, a, hd⟩ := dataAccept_sock _ hr
  exact ⟨d, a, by rw [hb]; exact hd⟩

theorem passive_final (cmd : Bytes) (rs : Replies) (f : Reply × Replies → MT (Bool × Replies))
    (hpos : ∀ rep rs', rep.isNegative = false → f (rep, rs') = (do pure (); dataHandshake; pure (true, rs')))
    (hneg : ∀ rep rs', rep.isNegative = true →
      f (rep, rs') = (do lift (dataDisconnect true); pure (false, rs')))
    (w : WorldT) (hw : HasSock w) : SatT (processCommandIntoT cmd rs >>= f) w CP := by
  refine cp_final HasSock hasSock_conn cmd rs (pure ()) f ?_ hpos ?_ w hw
  · intro w1 hw1
    exact SatT.pure ⟨evOnly_nil, fun _ => hw1⟩
  · intro rep rs' w1 hn
    rw [hneg rep rs' hn]
    exact cp_bind (fun _ _ => True) (lift_quiet _ w1) (fun _ w2 _ => cp_pure_false rs' w2)

theorem processEpsvT_cp (cmd : Bytes) (rs : Replies) (w : WorldT) : SatT (processEpsvT cmd rs) w CP := by
  unfold processEpsvT
  refine cp_bind (fun _ _ => True) ((pciT_kc _ _ w).mono fun _ _ _ h => ⟨h.1, fun _ _ => trivial⟩) ?_
  rintro ⟨r, rs1⟩ w1 -
  dsimp only
  split
  · exact cp_pure_false _ _
  · split
    · exact cp_throwT _
    · refine cp_bind (fun _ _ => True) (SatT.getT ⟨evOnly_nil, fun _ _ => trivial⟩) ?_
      intro wg w2 _
      refine cp_bind (fun _ w' => HasSock w') (lift_dataConnect _ _ w2) ?_
      intro _ w3 hw3
      refine passive_final _ _ _ (fun rep rs' h => ?_) (fun rep rs' h => ?_) w3 hw3
      · dsimp only; rw [if_neg (by simp [h])]
      · dsimp only; rw [if_pos h]

theorem processPasvT_cp (cmd : Bytes) (rs : Replies) (w : WorldT) : SatT (processPasvT cmd rs) w CP := by
  unfold processPasvT
  refine cp_bind (fun _ _ => True) ((pciT_kc _ _ w).mono fun _ _ _ h => ⟨h.1, fun _ _ => trivial⟩) ?_
  rintro ⟨r, rs1⟩ w1 -
  dsimp only
  split
  · exact cp_pure_false _ _
  · split
    · exact cp_throwT _
    · refine cp_bind (fun _ w' => HasSock w') (lift_dataConnect _ _ w1) ?_
      intro _ w3 hw3
      refine passive_final _ _ _ (fun rep rs' h => ?_) (fun rep rs' h => ?_) w3 hw3
      · dsimp only; rw [if_neg (by simp [h])]
      · dsimp only; rw [if_pos h]

theorem processActiveT_cp (eprt : Bool) (cmd : Bytes) (rs : Replies) (w : WorldT) :
    SatT (processActiveT eprt cmd rs) w CP := by
  unfold processActiveT
  refine cp_bind (fun _ _ => True) (lift_quiet _ w) ?_
  intro port w1 _
  refine cp_bind (fun _ _ => True) (SatT.getT ⟨evOnly_nil, fun _ _ => trivial⟩) ?_
  intro wg w2 _
  dsimp only
  have jp : ∀ (c : Bytes) (w3 : WorldT), SatT (do
      let __x ← processCommandIntoT c rs
      match __x with
        | (r, rs) =>
          if r.isNegative = true then pure (false, rs)
          else do
            let __x ← processCommandIntoT cmd rs
            match __x with
              | (r, rs) =>
                if r.isNegative = true then pure (false, rs)
                else do
                  lift dataAccept
                  dataHandshake
                  pure (true, rs)) w3 CP := by
    intro c w3
    refine cp_bind (fun _ _ => True) ((pciT_kc _ _ w3).mono fun _ _ _ h => ⟨h.1, fun _ _ => trivial⟩) ?_
    rintro ⟨r, rs1⟩ w4 -
    dsimp only
    split
    · exact cp_pure_false _ _
    · refine cp_final (fun _ => True) (fun _ _ _ _ => trivial) _ _ (lift dataAccept) _ (fun w5 _ => lift_dataAccept w5)
        (fun rep rs' h => ?_) (fun rep rs' w5 h => ?_) w4 trivial
      · dsimp only; rw [if_neg (by simp [h])]
      · dsimp only; rw [if_pos h]; exact cp_pure_false _ _
  split
  · exact cp_bind (fun _ _ => True) (SatT.pure ⟨evOnly_nil, fun _ _ => trivial⟩) (fun c w3 _ => jp c w3)
  · split
    · exact cp_bind (fun _ _ => True) (SatT.pure ⟨evOnly_nil, fun _ _ => trivial⟩) (fun c w3 _ => jp c w3)
    · exact cp_bind (fun _ _ => True) (SatT.throwT ⟨evOnly_nil, fun _ _ => trivial⟩) (fun c w3 _ => jp c w3)

theorem createDataConnectionT_cp (cmd : Bytes) (rs : Replies) (w : WorldT) :
    SatT (createDataConnectionT cmd rs) w CP := by
  unfold createDataConnectionT
  refine cp_bind (fun _ _ => True) (SatT.getT ⟨evOnly_nil, fun _ _ => trivial⟩) ?_
  intro wg w1 _
  refine cp_bind (fun _ _ => True) (SatT.modifyT rfl ⟨evOnly_nil, fun _ _ => trivial⟩) ?_
  intro _ w2 _
  split
  · exact processEpsvT_cp _ _ _
  · exact processPasvT_cp _ _ _
  · exact processActiveT_cp _ _ _ _
  · exact processActiveT_cp _ _ _ _

/-! ### the end of a transfer on a protected data connection -/

/-- what follows the close of the data descriptor: lifted events none of which is a payload write, among them a read
    on the control channel -/
def PostOK (post : List EvT) : Prop :=
  (∀ e ∈ post, ∃ t e0, e = EvT.ev t e0 ∧ ∀ d n, e0 ≠ Ev.dataWrite d n) ∧ ∃ t, EvT.ev t .ctlReadLine ∈ post

theorem finishT_spec (rs : Replies) (w : WorldT) (d : Nat) (a : Option Nat) (hd : w.dataTls = true)
    (hc : w.base.conn = some { sock := some d, acc := a }) :
    SatT (finishTransferT rs) w (fun r _ evs => ∀ x, r = .ok x → ∃ post,
      evs = [EvT.dataTlsShutdown d, EvT.ev w.ctlTls (.dataShutdown d), EvT.ev w.ctlTls (.dataClose d)] ++ post ∧
      PostOK post) := by
  unfold finishTransferT dataDisconnectT
  apply SatT.bind
  apply SatT.bind
  apply SatT.getT
  dsimp only
  rw [if_pos hd, hc]
  dsimp only
  apply SatT.bind
  apply SatT.emitT
  dsimp only
  apply (lift_gen (dataDisconnect true) _).mono
  intro r1 w1 e1 ⟨_, _, h1⟩
  cases r1 with
  | throw => intro x hx; cases hx
  | ok u =>
    obtain ⟨hr, hb, he⟩ := h1 u rfl
    have htr := fun hc' => dataDisconnect_true_trace _ d a hc' hr
    have htr := htr hc
    dsimp only
    apply SatT.bind
    apply (lift_gen (recvInto rs) w1).mono
    intro r2 w2 e2 ⟨_, _, h2⟩
    cases r2 with
    | throw => intro x hx; cases hx
    | ok y =>
      obtain ⟨rep, rs2⟩ := y
      obtain ⟨_, _, he2⟩ := h2 _ rfl
      obtain ⟨l, hl, _, hctl, _⟩ := Ftp.Client.DataL.recvInto_spec rs { w1.base with trace := [] }
      dsimp only
      apply SatT.pure
      intro x _
      refine ⟨(a.toList.map Ev.dataClose).map (EvT.ev w.ctlTls) ++ e2, ?_, ?_, ?_⟩
      · rw [he, htr]
        simp
      · intro e hm
        rcases List.mem_append.1 hm with hm | hm
        · obtain ⟨e0, h0, rfl⟩ := List.mem_map.1 hm
          obtain ⟨x, _, rfl⟩ := List.mem_map.1 h0
          exact ⟨_, _, rfl, fun _ _ h => by cases h⟩
        · rw [he2, hl] at hm
          obtain ⟨e0, h0, rfl⟩ := List.mem_map.1 hm
          refine ⟨_, _, rfl, fun d' n h => ?_⟩
          subst h
          simp only [List.nil_append, List.mem_cons] at h0
          rcases h0 with h0 | h0
          · cases h0
          · have := hctl _ h0
            cases this
      · refine ⟨w1.ctlTls, List.mem_append_right _ ?_⟩
        rw [he2, hl]
        simp

theorem cleanupT_post (w : WorldT) :
    SatT cleanupT w (fun _ _ evs => (∀ e ∈ evs, ∃ t e0, e = EvT.ev t e0 ∧ ∀ d n, e0 ≠ Ev.dataWrite d n)) := by
  apply (cleanupT_q3 w).mono
  intro _ _ evs ⟨_, h⟩ e he
  obtain ⟨e0, rfl, hp⟩ := h e he
  refine ⟨_, e0, rfl, fun d n h => ?_⟩
  subst h
  cases hp

theorem lift_dataSend (t : TType) (w : WorldT) :
    SatT (lift (dataSend false t)) w (fun r w' evs => EvOnly evs ∧ w'.dataTls = w.dataTls ∧ w'.ctlTls = w.ctlTls ∧
      (∀ a, r = .ok a → w'.base.conn = w.base.conn)) := by
  apply ((lift_kc (dataSend_kc false t) w).and (tag_lift (dataSend_any false t) w)).mono
  intro r w' evs ⟨⟨h1, h2, h3⟩, hc, _⟩
  exact ⟨h1, h2, congrArg (fun k => k.2.2) hc, h3⟩

/-- an upload that returns after a successful data handshake: what it appends is
    `pre ++ [close-notify on d, shutdown of d, close of d] ++ post` without any close-notify in `pre`, without payload
    writes in `post`, and with a control read in `post` -/
theorem uploadT_close_shape (verb : String) (path : Bytes) (w : WorldT) :
    SatT (uploadT verb path) w (fun r _ evs => ∀ rs, r = .ok rs → (∃ d o, EvT.dataTlsHandshake d o true ∈ evs) →
      ∃ pre post d t, evs = pre ++ [EvT.dataTlsShutdown d, EvT.ev t (.dataShutdown d), EvT.ev t (.dataClose d)] ++ post ∧
        NoTS pre ∧ PostOK post) := by
  unfold uploadT
  apply SatT.scopedT
  apply SatT.bind
  apply (lift_mkCmd_spec verb (some path) w).mono
  rintro r0 w0 e0 ⟨rfl, rfl⟩
  cases r0 with
  | throw =>
    apply (cleanupT_post w0).mono
    intro rc w2 e2 _ rs hr
    cases rc <;> cases hr
  | ok c =>
    dsimp only
    apply SatT.bind
    apply (createDataConnectionT_cp c Replies.empty w0).mono
    intro r1 w1 e1 ⟨hts, hcase⟩
    cases r1 with
    | throw =>
      apply (cleanupT_post w1).mono
      intro rc w2 e2 _ rs hr
      cases rc <;> cases hr
    | ok x =>
      obtain ⟨ready, rs1⟩ := x
      dsimp only
      rcases hcase with hno | ⟨⟨rs', hrs'⟩, hdt, d, a, hconn⟩
      · -- no successful handshake: none anywhere in the call
        have hq2 : AllT Q2 (if ready = true then do
            let w ← getT
            lift (dataSend false w.base.ttype)
            finishTransferT rs1
          else pure rs1) := by
          allt [q2_lift (dataSend_any _ _), finishTransferT_q2]
        apply (hq2 w1).mono
        intro r2 w2 e2 ⟨_, he2⟩
        apply (cleanupT_q3 w2).mono
        intro rc w3 e3 ⟨_, he3⟩ rs _ ⟨d, o, hm⟩
        exfalso
        simp only [List.nil_append, List.mem_append] at hm
        rcases hm with (hm | hm) | hm
        · exact hno d o hm
        · exact absurd (he2 _ hm).2 (by simp [isHs])
        · exact absurd (q3_q2 (he3 _ hm)).2 (by simp [isHs])
      · -- the data connection is protected and open
        injection hrs' with hrs'
        injection hrs' with hready _
        subst hready
        simp only [if_true]
        apply SatT.bind
        apply SatT.getT
        dsimp only
        apply SatT.bind
        apply (lift_dataSend w1.base.ttype w1).mono
        intro r2 w2 e2 ⟨hev2, hdt2, _, hconn2⟩
        cases r2 with
        | throw =>
          apply (cleanupT_post w2).mono
          intro rc w3 e3 _ rs hr
          cases rc <;> cases hr
        | ok u =>
          dsimp only
          apply (finishT_spec rs1 w2 d a (hdt2.trans hdt) ((hconn2 u rfl).trans hconn)).mono
          intro r3 w3 e3 h3
          apply (cleanupT_post w3).mono
          intro rc w4 e4 h4 rs hr _
          cases r3 with
          | throw => cases rc <;> cases hr
          | ok y =>
            obtain ⟨post, hpost, hp1, hp2⟩ := h3 y rfl
            refine ⟨e1 ++ e2, post ++ e4, d, w2.ctlTls, ?_, noTS_append hts (evOnly_noTS hev2), ?_, ?_⟩
            · rw [hpost]; simp
            · intro e he
              rcases List.mem_append.1 he with h | h
              · exact hp1 e h
              · exact h4 e h
            · obtain ⟨t, ht⟩ := hp2
              exact ⟨t, List.mem_append_left _ ht⟩

end Ftp.ClientTls.X
