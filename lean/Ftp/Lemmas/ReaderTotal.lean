import Ftp.Model.Reader
import Ftp.Lemmas.Utils
/- helper lemmas about the control-channel reader model: totality, end-of-stream accounting, buffer bound -/
namespace Ftp.Reader
open Ftp Ftp.Utils

theorem maxLine_eq : maxLine = 8192 := rfl

theorem matchEol_bound : ∀ (b : Bytes) (n : Nat), matchEol b = some n → 0 < n ∧ n ≤ b.length
  | [], n, h => by simp [matchEol] at h
  | c :: t, n, h => by
    unfold matchEol at h
    split at h
    · simp at h; subst h; simp
    · split at h
      · split at h
        · split at h <;> (simp at h; subst h; simp)
        · simp at h; subst h; simp
      · split at h
        · rename_i m hm
          have := matchEol_bound t m hm
          simp at h; subst h; simp; omega
        · simp at h

theorem matchEol_none_T : ∀ (s : Bytes), (∀ b ∈ s, b ≠ CR ∧ b ≠ LF) → matchEol s = none
  | [], _ => rfl
  | c :: t, h => by
    have hc := h c (by simp)
    have ht := matchEol_none_T t (fun b hb => h b (by simp [hb]))
    unfold matchEol
    simp [hc.1, hc.2, ht]

/-- the number of bytes one delivery appends -/
def gotOf (buf : Bytes) (net : Net) : Nat :=
  min (match net.sizes with
        | [] => maxLine
        | k :: _ => if k = 0 then 1 else k) (maxLine - buf.length)

theorem gotOf_pos (buf : Bytes) (net : Net) (h : buf.length < maxLine) : 0 < gotOf buf net := by
  unfold gotOf
  have := maxLine_eq
  split
  · omega
  · split <;> omega

theorem gotOf_le (buf : Bytes) (net : Net) : gotOf buf net ≤ maxLine - buf.length := by
  unfold gotOf; omega

theorem readLineF_succ (f : Nat) (buf : Bytes) (net : Net) :
    readLineF (f + 1) buf net =
      match matchEol buf with
      | some n => (.line (buf.take n), buf.drop n, net)
      | none =>
        if buf.length ≥ maxLine then (.tooLong, buf, net)
        else
          match net.stream with
          | [] => ((match net.fin with | .eof => .eof | .err => .err), buf,
                    { net with readsAtEnd := net.readsAtEnd + 1 })
          | _ :: _ =>
            readLineF f (buf ++ net.stream.take (gotOf buf net))
              { net with stream := net.stream.drop (gotOf buf net), sizes := net.sizes.tail } := by
  rfl

/-- everything the other proofs need to know about one `readLineF` call with enough fuel -/
def LineSpec (buf : Bytes) (net : Net) (r : LineR × Bytes × Net) : Prop :=
  r.1 ≠ .fuel ∧
  r.2.2.readsAtEnd ≤ net.readsAtEnd + 1 ∧
  (r.2.2.readsAtEnd = net.readsAtEnd + 1 → r.1 = .eof ∨ r.1 = .err) ∧
  (∀ l, r.1 = .line l → r.2.2.readsAtEnd = net.readsAtEnd ∧
      r.2.1.length + r.2.2.stream.length < buf.length + net.stream.length) ∧
  (buf.length ≤ maxLine → r.2.1.length ≤ maxLine)

theorem readLineF_spec_T : ∀ (f : Nat) (buf : Bytes) (net : Net), net.stream.length < f →
    LineSpec buf net (readLineF f buf net)
  | 0, _, _, h => by omega
  | f + 1, buf, net, hf => by
    rw [readLineF_succ]
    split
    · rename_i n hn
      have := matchEol_bound buf n hn
      refine ⟨by simp, by simp, by simp, ?_, ?_⟩
      · intro l _
        simp only [List.length_drop, true_and]
        omega
      · intro hb
        simp only [List.length_drop]
        omega
    · split
      · refine ⟨by simp, by simp, by simp, by simp, by simp⟩
      · rename_i hlt
        split
        · refine ⟨?_, by simp, ?_, ?_, by simp⟩
          · cases net.fin <;> simp
          · intro _; cases net.fin <;> simp
          · intro l; cases net.fin <;> simp
        · rename_i x xs hs
          have hpos := gotOf_pos buf net (by omega)
          have hle := gotOf_le buf net
          have ih := readLineF_spec_T f (buf ++ net.stream.take (gotOf buf net))
            { net with stream := net.stream.drop (gotOf buf net), sizes := net.sizes.tail }
            (by simp only [List.length_drop]; rw [hs] at hf ⊢; simp only [List.length_cons] at hf ⊢; omega)
          obtain ⟨h1, h2, h3, h4, h5⟩ := ih
          refine ⟨h1, h2, h3, ?_, ?_⟩
          · intro l hl
            have := h4 l hl
            simp only [List.length_append, List.length_take, List.length_drop] at this
            refine ⟨this.1, ?_⟩
            omega
          · intro hb
            apply h5
            simp only [List.length_append, List.length_take]
            omega

theorem readLine_spec_T (buf : Bytes) (net : Net) : LineSpec buf net (readLine buf net) :=
  readLineF_spec_T _ buf net (by omega)

/-- what the multi-line loop guarantees with enough fuel -/
def MultiSpec (buf : Bytes) (net : Net) (r : Option Bytes × Bool × Bytes × Net) : Prop :=
  r.2.1 = false ∧
  r.2.2.2.readsAtEnd ≤ net.readsAtEnd + 1 ∧
  (r.2.2.2.readsAtEnd = net.readsAtEnd + 1 → r.1 = none) ∧
  (buf.length ≤ maxLine → r.2.2.1.length ≤ maxLine)

theorem multiF_spec_T : ∀ (f code : Nat) (acc buf : Bytes) (net : Net),
    buf.length + net.stream.length < f → MultiSpec buf net (multiF f code acc buf net)
  | 0, _, _, _, _, h => by omega
  | f + 1, code, acc, buf, net, hf => by
    have hs := readLine_spec_T buf net
    unfold multiF
    generalize readLine buf net = r at hs
    obtain ⟨res, buf', net'⟩ := r
    obtain ⟨h1, h2, h3, h4, h5⟩ := hs
    simp only at h1 h2 h3 h4 h5
    cases res with
    | line l =>
      simp only
      have h4' := h4 l rfl
      split
      · refine ⟨rfl, by simp only; omega, ?_, h5⟩
        simp only; omega
      · have ih := multiF_spec_T f code (acc ++ l) buf' net' (by omega)
        obtain ⟨i1, i2, i3, i4⟩ := ih
        refine ⟨i1, by omega, ?_, fun hb => i4 (h5 hb)⟩
        intro h; apply i3; omega
    | fuel => exact absurd rfl h1
    | eof => exact ⟨rfl, h2, fun _ => rfl, h5⟩
    | err => exact ⟨rfl, h2, fun _ => rfl, h5⟩
    | tooLong => exact ⟨rfl, h2, fun _ => rfl, h5⟩

/-- what a receive step guarantees -/
def RecvSpec (c : Ctl) (net : Net) (r : RecvR × Ctl × Net) : Prop :=
  r.1 ≠ .fuel ∧
  r.2.2.readsAtEnd ≤ net.readsAtEnd + 1 ∧
  (r.2.2.readsAtEnd = net.readsAtEnd + 1 → r.1 = .error) ∧
  (c.buf.length ≤ maxLine → r.2.1.buf.length ≤ maxLine)

/-- the last step of `recv`: turn the outcome of the body into the result -/
def recvFin (c : Ctl) (code : Nat) (body : Option Bytes × Bool × Bytes × Net) : RecvR × Ctl × Net :=
  match body with
  | (some status, false, buf2, net2) =>
    (.reply code (stripEol status),
     { buf := buf2, skipLf := status.getLast? = some CR, closed := c.closed || code == 421 }, net2)
  | (_, true, buf2, net2) => (.fuel, { c with buf := buf2, skipLf := false }, net2)
  | (none, false, buf2, net2) => (.error, { c with buf := buf2, skipLf := false }, net2)

/-- the part of `recv` after the first line has been determined -/
def recvTail (c : Ctl) (l buf1 : Bytes) (net1 : Net) : RecvR × Ctl × Net :=
  match parseStatus l with
  | none => (.error, { c with buf := buf1, skipLf := false }, net1)
  | some code =>
    recvFin c code
      (if l.length > 3 && l.getD 3 0 == 45 then multiF (buf1.length + net1.stream.length + 1) code l buf1 net1
       else (some l, false, buf1, net1))

theorem recvFin_spec (c : Ctl) (code : Nat) (buf1 : Bytes) (net1 : Net)
    (body : Option Bytes × Bool × Bytes × Net) (hm : MultiSpec buf1 net1 body) :
    (recvFin c code body).1 ≠ .fuel ∧
    (recvFin c code body).2.2.readsAtEnd ≤ net1.readsAtEnd + 1 ∧
    ((recvFin c code body).2.2.readsAtEnd = net1.readsAtEnd + 1 → (recvFin c code body).1 = .error) ∧
    (buf1.length ≤ maxLine → (recvFin c code body).2.1.buf.length ≤ maxLine) := by
  obtain ⟨o, b, buf2, net2⟩ := body
  obtain ⟨m1, m2, m3, m4⟩ := hm
  simp only at m1 m2 m3 m4
  subst m1
  cases o with
  | none => exact ⟨by simp [recvFin], m2, fun _ => rfl, m4⟩
  | some st =>
    refine ⟨by simp [recvFin], m2, ?_, m4⟩
    intro h
    have := m3 h
    simp at this

theorem recvTail_spec (c : Ctl) (l buf1 : Bytes) (net1 : Net) :
    (recvTail c l buf1 net1).1 ≠ .fuel ∧
    (recvTail c l buf1 net1).2.2.readsAtEnd ≤ net1.readsAtEnd + 1 ∧
    ((recvTail c l buf1 net1).2.2.readsAtEnd = net1.readsAtEnd + 1 → (recvTail c l buf1 net1).1 = .error) ∧
    (buf1.length ≤ maxLine → (recvTail c l buf1 net1).2.1.buf.length ≤ maxLine) := by
  unfold recvTail
  split
  · simp
  · rename_i code _
    apply recvFin_spec
    split
    · exact multiF_spec_T _ code l buf1 net1 (by omega)
    · exact ⟨rfl, by simp, by simp, by simp⟩

/-- the part of `recv` after the (possibly repeated) first `readLine` -/
def recvFirst (c : Ctl) (first : LineR × Bytes × Net) : RecvR × Ctl × Net :=
  match first with
  | (.line l, buf1, net1) => recvTail c l buf1 net1
  | (.fuel, buf1, net1) => (.fuel, { c with buf := buf1, skipLf := false }, net1)
  | (_, buf1, net1) => (.error, { c with buf := buf1, skipLf := false }, net1)

theorem recv_eq (c : Ctl) (net : Net) :
    recv c net =
      match readLine c.buf net with
      | (.line l0, buf0, net0) =>
        recvFirst c (if c.skipLf && l0 == [LF] then readLine buf0 net0 else (.line l0, buf0, net0))
      | (.fuel, buf0, net0) => (.fuel, { c with buf := buf0 }, net0)
      | (_, buf0, net0) => (.error, { c with buf := buf0 }, net0) := by
  rfl

theorem recvFirst_spec (c : Ctl) (buf : Bytes) (net : Net) (first : LineR × Bytes × Net)
    (hs : LineSpec buf net first) :
    (recvFirst c first).1 ≠ .fuel ∧
    (recvFirst c first).2.2.readsAtEnd ≤ net.readsAtEnd + 1 ∧
    ((recvFirst c first).2.2.readsAtEnd = net.readsAtEnd + 1 → (recvFirst c first).1 = .error) ∧
    (buf.length ≤ maxLine → (recvFirst c first).2.1.buf.length ≤ maxLine) := by
  obtain ⟨res, buf1, net1⟩ := first
  obtain ⟨h1, h2, h3, h4, h5⟩ := hs
  simp only at h1 h2 h3 h4 h5
  cases res with
  | line l =>
    have h4' := h4 l rfl
    obtain ⟨t1, t2, t3, t4⟩ := recvTail_spec c l buf1 net1
    refine ⟨t1, ?_, ?_, fun hb => t4 (h5 hb)⟩
    · show (recvTail c l buf1 net1).2.2.readsAtEnd ≤ _
      omega
    · intro h
      apply t3
      show (recvTail c l buf1 net1).2.2.readsAtEnd = _
      have : (recvTail c l buf1 net1).2.2.readsAtEnd = net.readsAtEnd + 1 := h
      omega
  | fuel => exact absurd rfl h1
  | eof => exact ⟨by simp [recvFirst], h2, fun _ => rfl, h5⟩
  | err => exact ⟨by simp [recvFirst], h2, fun _ => rfl, h5⟩
  | tooLong => exact ⟨by simp [recvFirst], h2, fun _ => rfl, h5⟩

theorem recv_spec (c : Ctl) (net : Net) : RecvSpec c net (recv c net) := by
  have hs := readLine_spec_T c.buf net
  rw [recv_eq]
  generalize readLine c.buf net = r at hs
  obtain ⟨res, buf0, net0⟩ := r
  have hs0 := hs
  obtain ⟨h1, h2, h3, h4, h5⟩ := hs
  simp only at h1 h2 h3 h4 h5
  cases res with
  | line l0 =>
    simp only
    have h4' := h4 l0 rfl
    split
    · obtain ⟨f1, f2, f3, f4⟩ := recvFirst_spec c buf0 net0 _ (readLine_spec_T buf0 net0)
      refine ⟨f1, by omega, ?_, fun hb => f4 (h5 hb)⟩
      intro h; apply f3; omega
    · exact recvFirst_spec c c.buf net _ hs0
  | fuel => exact absurd rfl h1
  | eof => exact ⟨by simp, h2, fun _ => rfl, h5⟩
  | err => exact ⟨by simp, h2, fun _ => rfl, h5⟩
  | tooLong => exact ⟨by simp, h2, fun _ => rfl, h5⟩

theorem readLineF_long : ∀ (f : Nat) (buf : Bytes) (net : Net), net.stream.length < f →
    buf.length ≤ maxLine → maxLine ≤ (buf ++ net.stream).length →
    (∀ b ∈ (buf ++ net.stream).take maxLine, b ≠ CR ∧ b ≠ LF) →
    (readLineF f buf net).1 = .tooLong ∧ (readLineF f buf net).2.1 = (buf ++ net.stream).take maxLine
  | 0, _, _, h, _, _, _ => by omega
  | f + 1, buf, net, hf, hb, hlen, hno => by
    have htake : (buf ++ net.stream).take maxLine = buf ++ net.stream.take (maxLine - buf.length) := by
      rw [List.take_append, List.take_of_length_le hb]
    have hnone : matchEol buf = none := by
      apply matchEol_none_T
      intro b hbm
      apply hno
      rw [htake]
      exact List.mem_append_left _ hbm
    rw [readLineF_succ, hnone]
    simp only
    split
    · rename_i hge
      have : maxLine - buf.length = 0 := by omega
      rw [htake, this]
      simp
    · rename_i hlt
      simp only [List.length_append] at hlen
      split
      · rename_i hs
        rw [hs] at hlen
        simp only [List.length_nil] at hlen
        omega
      · rename_i x xs hs
        have hpos := gotOf_pos buf net (by omega)
        have hle := gotOf_le buf net
        have happ : buf ++ List.take (gotOf buf net) net.stream ++ List.drop (gotOf buf net) net.stream
            = buf ++ net.stream := by
          rw [List.append_assoc, List.take_append_drop]
        have ih := readLineF_long f (buf ++ net.stream.take (gotOf buf net))
          { net with stream := net.stream.drop (gotOf buf net), sizes := net.sizes.tail }
          (by simp only [List.length_drop]; rw [hs] at hf ⊢; simp only [List.length_cons] at hf ⊢; omega)
          (by simp only [List.length_append, List.length_take]; omega)
          (by simp only; rw [happ]; simp only [List.length_append]; exact hlen)
          (by simp only; rw [happ]; exact hno)
        simp only [happ] at ih
        exact ih

theorem recv_long (c : Ctl) (net : Net) (hb : c.buf.length ≤ maxLine)
    (hlen : maxLine ≤ (c.buf ++ net.stream).length)
    (hno : ∀ b ∈ (c.buf ++ net.stream).take maxLine, b ≠ CR ∧ b ≠ LF) :
    (recv c net).1 = .error ∧ (recv c net).2.1.buf = (c.buf ++ net.stream).take maxLine := by
  have hl := readLineF_long (net.stream.length + 1) c.buf net (by omega) hb hlen hno
  rw [recv_eq]
  change (readLine c.buf net).1 = _ ∧ (readLine c.buf net).2.1 = _ at hl
  generalize readLine c.buf net = r at hl
  obtain ⟨res, buf0, net0⟩ := r
  obtain ⟨l1, l2⟩ := hl
  simp only at l1 l2
  subst l1 l2
  exact ⟨rfl, rfl⟩

end Ftp.Reader
