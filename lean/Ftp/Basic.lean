/-
  Basic vocabulary shared by every model module.

  A byte is modelled as a `Nat`.  The real code works on `char`; every place where the code
  depends on the numeric value of a character (digit tests, CR/LF tests, ASCII case folding)
  only compares against ASCII constants, so the model functions are defined for every `Nat`
  and the theorems hold for every list of naturals - a superset of the byte strings.  The
  driver only ever feeds values below 256.
-/
namespace Ftp

abbrev Byte := Nat
abbrev Bytes := List Nat

def CR : Byte := 13
def LF : Byte := 10
def SP : Byte := 32

/-- Kernel-reducible byte literal (`String.toUTF8` does not reduce under `decide`). -/
def str (s : String) : Bytes := s.toList.map (fun c => c.toNat)

def isDigit (b : Byte) : Bool := 48 ≤ b && b ≤ 57

/-- `std::to_string` on an unsigned value (fuel form so that it is structurally recursive). -/
def toDecF : Nat → Nat → Bytes → Bytes
  | 0, _, acc => acc
  | fuel + 1, n, acc =>
    if n < 10 then (48 + n) :: acc else toDecF fuel (n / 10) ((48 + n % 10) :: acc)

def toDec (n : Nat) : Bytes := toDecF (n + 1) n []

/-- Decimal value of a digit string (no validation). -/
def decValue (ds : Bytes) : Nat := ds.foldl (fun n d => 10 * n + (d - 48)) 0

def isDigits (ds : Bytes) : Bool := !ds.isEmpty && ds.all isDigit

end Ftp
