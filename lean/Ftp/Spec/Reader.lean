import Ftp.Model.Reader
/-
  Reference decoder for a *complete* control stream made of RFC 959 replies (no chunking, no buffer):
  what each receive step must yield.  Used as the monitor of C01 and in its theorems.
-/
namespace Ftp.Spec
open Ftp

/-- cut the stream into lines, each including its LF; `none` if the stream does not end with a terminator -/
def rawLines : Bytes → Bytes → Option (List Bytes)
  | [], cur => if cur.isEmpty then some [] else none
  | c :: t, cur =>
    if c = LF then
      match rawLines t [] with
      | some ls => some ((cur ++ [c]) :: ls)
      | none => none
    else rawLines t (cur ++ [c])

/-- a raw line without its terminator (LF, or CR LF) -/
def content (l : Bytes) : Bytes :=
  let l1 := if l.getLast? = some LF then l.dropLast else l
  if l1.getLast? = some CR then l1.dropLast else l1

def codeOf (l : Bytes) : Option Nat :=
  match l with
  | a :: b :: c :: _ =>
    if isDigit a && isDigit b && isDigit c then some ((a - 48) * 100 + (b - 48) * 10 + (c - 48)) else none
  | _ => none

/-- the closing line of a multi-line reply: same code followed by a space -/
def closes (code : Nat) (l : Bytes) : Bool := codeOf l = some code && (content l).getD 3 0 = 32 && (content l).length ≥ 4

/-- lines up to and including the first closing line -/
def takeReply (code : Nat) : List Bytes → Option (List Bytes × List Bytes)
  | [] => none
  | l :: ls =>
    if closes code l then some ([l], ls)
    else match takeReply code ls with
      | some (body, rest) => some (l :: body, rest)
      | none => none

/-- group raw lines into replies (fuel = number of lines) -/
def groupReplies : Nat → List Bytes → Option (List (Nat × Bytes))
  | _, [] => some []
  | 0, _ :: _ => none
  | f + 1, l :: ls =>
    match codeOf l with
    | none => none
    | some code =>
      if (content l).getD 3 0 = 45 && (content l).length ≥ 4 then
        match takeReply code ls with
        | none => none
        | some (body, rest) =>
          match groupReplies f rest with
          | some rs => some ((code, content (l ++ body.flatten)) :: rs)
          | none => none
      else
        match groupReplies f ls with
        | some rs => some ((code, content l) :: rs)
        | none => none

/-- every line content is free of CR (so that "text free of CR and LF" holds) and short enough -/
def linesOk (ls : List Bytes) : Bool :=
  ls.all (fun l => !(content l).contains CR && l.length ≤ 8191)

/-- the replies of a complete well-formed stream; `none` if the stream is not of that form -/
def decodeStream (s : Bytes) : Option (List (Nat × Bytes)) :=
  match rawLines s [] with
  | none => none
  | some ls => if linesOk ls then groupReplies ls.length ls else none

end Ftp.Spec
