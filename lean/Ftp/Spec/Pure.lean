import Ftp.Model.Reply
import Ftp.Model.Typed
import Ftp.Model.Endpoint
import Ftp.Model.Ascii
import Ftp.Model.CmdParser
/-
  Reference functions: the short definitions that are read against properties.jsonl.
  They are used (a) in the theorems of `Ftp/Props` (the code-shaped model is proved to agree with
  them) and (b) by the driver as the monitor that is evaluated on the implementation's outputs.
-/
namespace Ftp.Spec
open Ftp

/-! ### C15 -/

def isPositive (code : Nat) : Bool := code != 65535 && code < 400
def isNegative (code : Nat) : Bool := code != 65535 && 400 ≤ code
def isIntermediate (code : Nat) : Bool := code != 65535 && 300 ≤ code && code < 400

def intercalateCRLF : List Bytes → Bytes
  | [] => []
  | [t] => t
  | t :: ts => t ++ [CR, LF] ++ intercalateCRLF ts

def aggPositive (rs : List Reply) : Bool := !rs.isEmpty && rs.all (fun r => isPositive r.code)
def aggStatus (rs : List Reply) : Bytes := intercalateCRLF (rs.map (·.text))

/-! ### C16 -/

def two64 : Nat := 18446744073709551616
def two32 : Nat := 4294967296

/-- value of a 213 size payload: the text after the first four characters is a decimal number < 2^64 -/
def sizeOf (r : Reply) : Option Nat :=
  let p := r.text.drop 4
  if r.code = 213 ∧ isDigits p ∧ decValue p < two64 then some (decValue p) else none

/-- RFC 3659 time-val: 14DIGIT [ "." 1*DIGIT ] -/
def isTimeVal (s : Bytes) : Bool :=
  (s.take 14).length = 14 && (s.take 14).all isDigit &&
  (s.length = 14 || (s.getD 14 0 = 46 && isDigits (s.drop 15)))

def field (s : Bytes) (pos n : Nat) : Nat := decValue ((s.drop pos).take n)

/-- the six calendar fields and the fraction, as written -/
def timeFields (s : Bytes) : List Nat :=
  [field s 0 4, field s 4 2, field s 6 2, field s 8 2, field s 10 2, field s 12 2, decValue (s.drop 15)]

/-- value of a 213 time payload whose fraction fits 32 bits -/
def timeOf (r : Reply) : Option (List Nat) :=
  let p := r.text.drop 4
  if r.code = 213 ∧ isTimeVal p ∧ decValue (p.drop 15) < two32 then some (timeFields p) else none

/-- is the fraction too large for the 32-bit field?  (the only case in which a well-formed time-val may
    be left without a value) -/
def timeMayBeNone (r : Reply) : Bool :=
  let p := r.text.drop 4
  !(r.code = 213 && isTimeVal p) || decValue (p.drop 15) ≥ two32

/-- LF-separated pieces (the piece after the last LF only if non-empty), one trailing CR removed from each -/
def splitLF : Bytes → Bytes → List Bytes
  | [], cur => if cur.isEmpty then [] else [cur]
  | c :: t, cur => if c = LF then cur :: splitLF t [] else splitLF t (cur ++ [c])

def dropOneCR (l : Bytes) : Bytes := if l.getLast? = some CR then l.dropLast else l

def listLines (t : Bytes) : List Bytes := (splitLF t []).map dropOneCR

/-! ### C05 -/

/-- upload: every CR LF pair, lone CR and lone LF becomes CR LF (`afterCR` = the previous byte was CR). -/
def ulGo : Bool → Bytes → Bytes
  | _, [] => []
  | afterCR, c :: t =>
    if c = CR then CR :: LF :: ulGo true t
    else if c = LF then (if afterCR then ulGo false t else CR :: LF :: ulGo false t)
    else c :: ulGo false t

def ulSpec (s : Bytes) : Bytes := ulGo false s

/-- download: every CR LF pair becomes LF, everything else (lone CR included) is unchanged. -/
def dlSpec : Bytes → Bytes
  | [] => []
  | [c] => [c]
  | c :: d :: t => if c = CR ∧ d = LF then LF :: dlSpec t else c :: dlSpec (d :: t)

/-! ### C06 (pure part) -/

/-- reference reader for `(<d><d><d><port><d>)`: first `(`, last `)`, four equal delimiters in 33..126,
    decimal port below 65536. -/
def epsvOf (t : Bytes) : Option Nat :=
  match t.idxOf? 40, t.reverse.idxOf? 41 with
  | some b, some re =>
    let e := t.length - 1 - re
    if b < e then
      let inner := (t.drop (b + 1)).take (e - b - 1)
      match inner with
      | d1 :: d2 :: d3 :: rest =>
        match rest.getLast? with
        | some d4 =>
          let ds := rest.dropLast
          if d1 = d2 ∧ d2 = d3 ∧ d3 = d4 ∧ 33 ≤ d1 ∧ d1 ≤ 126 ∧ isDigits ds ∧ decValue ds < 65536
          then some (decValue ds) else none
        | none => none
      | _ => none
    else none
  | _, _ => none

/-- split at every comma, keeping empty pieces (so the number of pieces is the number of commas + 1) -/
def splitComma : Bytes → Bytes → List Bytes
  | [], cur => [cur]
  | c :: t, cur => if c = 44 then cur :: splitComma t [] else splitComma t (cur ++ [c])

def octet? (f : Bytes) : Option Nat := if isDigits f ∧ decValue f ≤ 255 then some (decValue f) else none

/-- reference reader for `(h1,h2,h3,h4,p1,p2)`: six decimal fields, each at most 255 -/
def pasvOf (t : Bytes) : Option (List Nat × Nat) :=
  match t.idxOf? 40, t.reverse.idxOf? 41 with
  | some b, some re =>
    let e := t.length - 1 - re
    if b < e then
      let inner := (t.drop (b + 1)).take (e - b - 1)
      match (splitComma inner []).map octet? with
      | [some h1, some h2, some h3, some h4, some p1, some p2] => some ([h1, h2, h3, h4], p1 * 256 + p2)
      | _ => none
    else none
  | _, _ => none

/-- what an RFC 959 server does with the argument of PORT: six decimal octets -/
def decodePortArg (a : Bytes) : Option (List Nat × Nat) :=
  match (splitComma a []).map octet? with
  | [some h1, some h2, some h3, some h4, some p1, some p2] => some ([h1, h2, h3, h4], p1 * 256 + p2)
  | _ => none

def splitBar : Bytes → Bytes → List Bytes
  | [], cur => [cur]
  | c :: t, cur => if c = 124 then cur :: splitBar t [] else splitBar t (cur ++ [c])

/-- what an RFC 2428 server does with the argument of EPRT `|f|addr|port|` -/
def decodeEprtArg (a : Bytes) : Option (Nat × Bytes × Nat) :=
  match splitBar a [] with
  | [[], [f], addr, port, []] =>
    if (f = 49 ∨ f = 50) ∧ isDigits port ∧ decValue port < 65536 then some (f - 48, addr, decValue port) else none
  | _ => none

/-! ### C09 (pure part) -/

def hasCrLf (s : Bytes) : Bool := s.any (fun c => c = CR || c = LF)

/-- the one command line for a verb and an optional caller text; `none` = must be refused -/
def commandLine (verb : Bytes) (arg : Option Bytes) : Option Bytes :=
  match arg with
  | none => some verb
  | some a => if hasCrLf a then none else some (verb ++ [SP] ++ a)

/-! ### C19 -/

def asciiLower (b : Byte) : Byte := if 65 ≤ b && b ≤ 90 then b + 32 else b

/-- the 27 documented verbs -/
def verbs : List (String × Cmd.Command) :=
  [("open", .open_), ("user", .user), ("cd", .cd), ("cdup", .cdup), ("ls", .ls), ("pwd", .pwd),
   ("mkdir", .mkdir), ("rmdir", .rmdir), ("put", .put), ("get", .get), ("rename", .rename),
   ("size", .size), ("del", .del), ("stat", .stat), ("syst", .syst), ("type", .type),
   ("binary", .binary), ("ascii", .ascii), ("mode", .mode), ("active", .active), ("passive", .passive),
   ("noop", .noop), ("rhelp", .rhelp), ("logout", .logout), ("close", .close), ("help", .help),
   ("exit", .exit)]

def verbOf (tok : Bytes) : Option Cmd.Command :=
  match verbs.find? (fun p => tok.map asciiLower == str p.1) with
  | some p => some p.2
  | none => none

def escape : Bytes → Bytes
  | [] => []
  | c :: t => if c = 34 ∨ c = 92 then 92 :: c :: escape t else c :: escape t

def quote (a : Bytes) : Bytes := [34] ++ escape a ++ [34]

end Ftp.Spec
