import Ftp.Spec.Session
/-
  Histories: sequences of API calls on one client object.  Between two calls the environment (the server, the network,
  the user's streams and callback) may prepare whatever it likes for the next call - a new script, new oracles - but it
  never touches what belongs to the client or what is already in flight.  The history-level theorems (C02, C14, C17)
  are inductions over this list, so they hold for histories of every length.
-/
namespace Ftp.Session
open Ftp Ftp.Client

/-- what the environment may change between two API calls: the server's script and every oracle (delivery schedule,
    connect results, kernel-chosen ports, data reads, write and close results, the user's streams, the callback's
    answers); never the client's own state, the descriptor counter, the bytes already in flight, or the past -/
structure EnvStep (w w' : World) : Prop where
  mode : w'.mode = w.mode
  ttype : w'.ttype = w.ttype
  rfc : w'.rfc = w.rfc
  connected : w'.connected = w.connected
  ctl : w'.ctl = w.ctl
  stream : w'.net.stream = w.net.stream
  conn : w'.conn = w.conn
  nextD : w'.nextD = w.nextD
  trace : w'.trace = w.trace

/-- one step of a history: the environment's preparation, then the call -/
structure Call where
  env : World → World
  op : Op

/-- the environment keeps its hands off the client -/
def Call.fair (c : Call) : Prop := ∀ w, EnvStep w (c.env w)

/-- ... and does not register or unregister observers (C14 also allows that, see `Call.fairObs`) -/
def Call.keepsObservers (c : Call) : Prop := ∀ w, (c.env w).observers = w.observers

/-- the state in which the call of this step starts, and the state it leaves -/
def Call.before (c : Call) (w : World) : World := c.env w
def Call.after (c : Call) (w : World) : World := Session.after c.op.run (c.env w)

def runHistory : List Call → World → World
  | [], w => w
  | c :: rest, w => runHistory rest (c.after w)

/-- everything the history added to the trace -/
def histAdded (h : List Call) (w : World) : List Ev := (runHistory h w).trace.drop w.trace.length

/-- the states in which the calls of a history start -/
def starts : List Call → World → List World
  | [], _ => []
  | c :: rest, w => c.before w :: starts rest (c.after w)

end Ftp.Session
