import Ftp.Basic
import Ftp.Spec.Pure
/-
  Reference automaton of C10: for each API call, the RFC command sequence that belongs to it, as a function of the
  reply *codes* the server gives, step by step.  Deliberately independent of the model of client.cpp: no events, no
  state monad, only lists.
-/
namespace Ftp.Spec

inductive Call
  | simple (verb : String) (arg : Option Bytes)          -- one command, one reply
  | rename (a b : Bytes)
  | login (user pass : Bytes)
  | connect (cred : Option (Bytes × Bytes))
  | setType (ascii : Bool)
  | transfer (verb : String) (arg : Option Bytes) (cancelled : Bool)   -- RETR/STOR/STOU/APPE/LIST/NLST
  | disconnect (graceful : Bool)
  deriving Repr

structure Settings where
  passive : Bool
  rfc2428 : Bool
  asciiType : Bool
  v6 : Bool

def line (verb : String) (arg : Option Bytes) : Bytes :=
  match arg with
  | some a => str verb ++ [SP] ++ a
  | none => str verb

def negative (code : Nat) : Bool := code ≥ 400

/-- the TYPE command for the configured type -/
def typeLine (s : Settings) : Bytes := if s.asciiType then str "TYPE A" else str "TYPE I"

/-- login: USER, PASS only after 331, stop at the first negative reply, then TYPE -/
def loginLines (s : Settings) (user pass : Bytes) (codes : List Nat) : List Bytes :=
  match codes with
  | [] => [line "USER" (some user)]
  | c1 :: rest =>
    if c1 = 331 then
      line "USER" (some user) :: line "PASS" (some pass) ::
        (match rest with
         | [] => []
         | c2 :: _ => if negative c2 then [] else [typeLine s])
    else if negative c1 then [line "USER" (some user)]
    else [line "USER" (some user), typeLine s]

/-- `codes`: the codes of the replies received during the call, in order (for `connect` the greeting comes first;
    `setup` is the line the client built for EPRT / PORT - its content is C06's business, here only its verb). -/
def expectedLines (s : Settings) (call : Call) (codes : List Nat) (activeLine : Bytes) : List Bytes :=
  match call with
  | .simple verb arg => [line verb arg]
  | .rename a b =>
    line "RNFR" (some a) :: (match codes with | c :: _ => if c = 350 then [line "RNTO" (some b)] else [] | [] => [])
  | .login u p => loginLines s u p codes
  | .connect cred =>
    -- greeting (an optional 120 first); a negative greeting ends the call
    let afterGreeting := match codes with
      | 120 :: g :: rest => some (g, rest)
      | g :: rest => some (g, rest)
      | [] => none
    match afterGreeting, cred with
    | some (g, rest), some (u, p) => if negative g then [] else loginLines s u p rest
    | _, _ => []
  | .setType a => [if a then str "TYPE A" else str "TYPE I"]
  | .transfer verb arg cancelled =>
    let setup : Bytes := if s.passive then (if s.rfc2428 then str "EPSV" else str "PASV") else activeLine
    match codes with
    | [] => [setup]
    | c1 :: rest =>
      if negative c1 then [setup]
      else setup :: line verb arg ::
        (match rest with
         | c2 :: _ => if negative c2 then [] else if cancelled then [str "ABOR"] else []
         | [] => [])
  | .disconnect graceful => if graceful then [str "QUIT"] else []

end Ftp.Spec
