import Ftp.Basic
import Ftp.Spec.Pure
/-
  Reference automaton of C10: for each API call, the RFC command sequence that belongs to it, as a function of the
  reply *codes* the server gives, step by step.  Deliberately independent of the model of client.cpp: no events, no
  state monad, only lists.
-/
namespace Ftp.Spec

inductive Call
  | simple (verb : String) (arg : Option Bytes)          -- one command, one reply
  | rename (a b : Bytes)
  | login (user pass : Bytes)
  | connect (cred : Option (Bytes × Bytes))
  | setType (ascii : Bool)
  | transfer (verb : String) (arg : Option Bytes) (cancelled : Bool)   -- RETR/STOR/STOU/APPE/LIST/NLST
  | disconnect (graceful : Bool)
  deriving Repr

structure Settings where
  passive : Bool
  rfc2428 : Bool
  asciiType : Bool
  v6 : Bool

def line (verb : String) (arg : Option Bytes) : Bytes :=
  match arg with
  | some a => str verb ++ [SP] ++ a
  | none => str verb

def negative (code : Nat) : Bool := code ≥ 400

/-- the TYPE command for the configured type -/
def typeLine (s : Settings) : Bytes := if s.asciiType then str "TYPE A" else str "TYPE I"

/-- login: USER, PASS only after 331, stop at the first negative reply, then TYPE -/
def loginLines (s : Settings) (user pass : Bytes) (codes : List Nat) : List Bytes :=
  match codes with
  | [] => [line "USER" (some user)]
  | c1 :: rest =>
    if c1 = 331 then
      line "USER" (some user) :: line "PASS" (some pass) ::
        (match rest with
         | [] => []
         | c2 :: _ => if negative c2 then [] else [typeLine s])
    else if negative c1 then [line "USER" (some user)]
    else [line "USER" (some user), typeLine s]

/-- `codes`: the codes of the replies received during the call, in order (for `connect` the greeting comes first;
    `setup` is the line the client built for EPRT / PORT - its content is C06's business, here only its verb). -/
def expectedLines (s : Settings) (call : Call) (codes : List Nat) (activeLine : Bytes) : List Bytes :=
  match call with
  | .simple verb arg => [line verb arg]
  | .rename a b =>
    line "RNFR" (some a) :: (match codes with | c :: _ => if c = 350 then [line "RNTO" (some b)] else [] | [] => [])
  | .login u p => loginLines s u p codes
  | .connect cred =>
    -- greeting (an optional 120 first); a negative greeting ends the call
    let afterGreeting := match codes with
      | 120 :: g :: rest => some (g, rest)
      | g :: rest => some (g, rest)
      | [] => none
    match afterGreeting, cred with
    | some (g, rest), some (u, p) => if negative g then [] else loginLines s u p rest
    | _, _ => []
  | .setType a => [if a then str "TYPE A" else str "TYPE I"]
  | .transfer verb arg cancelled =>
    let setup : Bytes := if s.passive then (if s.rfc2428 then str "EPSV" else str "PASV") else activeLine
    match codes with
    | [] => [setup]
    | c1 :: rest =>
      if negative c1 then [setup]
      else setup :: line verb arg ::
        (match rest with
         | c2 :: _ => if negative c2 then [] else if cancelled then [str "ABOR"] else []
         | [] => [])
  | .disconnect graceful => if graceful then [str "QUIT"] else []

end Ftp.Spec

namespace Ftp.Spec

/-- login with a TLS context: after the credentials were accepted, PBSZ 0 and PROT P (each must be answered
    non-negatively), then TYPE -/
def loginLinesTls (s : Settings) (user pass : Bytes) (codes : List Nat) : List Bytes :=
  let tail (rest : List Nat) : List Bytes :=
    -- rest: codes of the replies after the one that accepted the credentials
    str "PBSZ 0" :: (match rest with
      | [] => []
      | c :: rest' => if negative c then [] else
        str "PROT P" :: (match rest' with
          | [] => []
          | c' :: _ => if negative c' then [] else [typeLine s]))
  match codes with
  | [] => [line "USER" (some user)]
  | c1 :: rest =>
    if c1 = 331 then
      line "USER" (some user) :: line "PASS" (some pass) ::
        (match rest with
         | [] => []
         | c2 :: rest' => if negative c2 then [] else tail rest')
    else if negative c1 then [line "USER" (some user)]
    else line "USER" (some user) :: tail rest

/-- connect with a TLS context: greeting (an optional 120 first), AUTH TLS, and - after a non-negative answer and a
    successful handshake - the login sequence -/
def connectLinesTls (s : Settings) (cred : Option (Bytes × Bytes)) (codes : List Nat) (handshakeOk : Bool) : List Bytes :=
  let afterGreeting := match codes with
    | 120 :: g :: rest => some (g, rest)
    | g :: rest => some (g, rest)
    | [] => none
  match afterGreeting with
  | none => []
  | some (g, rest) =>
    if negative g then []
    else str "AUTH TLS" :: (match rest with
      | [] => []
      | a :: rest' =>
        if negative a || !handshakeOk then []
        else match cred with
          | some (u, p) => loginLinesTls s u p rest'
          | none => [])

end Ftp.Spec
