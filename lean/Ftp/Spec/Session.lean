import Ftp.Model.Client
import Ftp.Props.C01
/-
  Shared vocabulary of the client-level property theorems (C02, C03, C04, C06, C07, C09, C10, C12, C13, C14, C17):
  the API calls as one inductive type, the events a call adds to the trace, well-formed server scripts, and the
  "in step" invariant that ties the byte-level reader (C01) to the framed view of the session.
-/
namespace Ftp.Session
open Ftp Ftp.Client Ftp.Props.C01

/-- the result of an API call -/
inductive Out
  | reply (r : Reply)
  | replies (rs : Replies)
  | listing (rs : Replies) (text : Bytes)
  | opt (r : Option Reply)
  deriving Repr

/-- the API calls of `ftp::client` that touch the network -/
inductive Op
  | connect (host : Bytes) (port : Nat) (cred : Option (Bytes × Bytes))
  | login (user pass : Bytes)
  | logout
  | simple (verb : String) (arg : Option Bytes)
  | setType (t : TType)
  | rename (a b : Bytes)
  | download (path : Bytes) (cb : Bool)
  | upload (verb : String) (path : Bytes) (cb : Bool)
  | list (path : Option Bytes) (names : Bool)
  | disconnect (graceful : Bool)
  deriving Repr

def Op.run : Op → M Out
  | .connect h p c => do let r ← Client.connect h p c; pure (.replies r)
  | .login u p => do let r ← Client.login u p; pure (.replies r)
  | .logout => do let r ← Client.logout; pure (.reply r)
  | .simple v a => do let r ← Client.simple v a; pure (.reply r)
  | .setType t => do let r ← Client.setTransferType t; pure (.reply r)
  | .rename a b => do let r ← Client.rename a b; pure (.replies r)
  | .download p cb => do let r ← Client.download p cb; pure (.replies r)
  | .upload v p cb => do let r ← Client.upload v p cb; pure (.replies r)
  | .list p n => do let r ← Client.fileList p n; pure (.listing r.1 r.2)
  | .disconnect g => do let r ← Client.disconnect g; pure (.opt r)

/-- the replies a result carries -/
def Out.replyList : Out → List Reply
  | .reply r => [r]
  | .replies rs => rs.list
  | .listing rs _ => rs.list
  | .opt (some r) => [r]
  | .opt none => []

/-- the world after running a program, and the events it added -/
def after {α} (m : M α) (w : World) : World := (m w).2
def result {α} (m : M α) (w : World) : Res α := (m w).1
def added {α} (m : M α) (w : World) : List Ev := (after m w).trace.drop w.trace.length

/-! ### projections of a trace -/

def writes (tr : List Ev) : List Bytes := tr.filterMap fun | .ctlWrite b => some b | _ => none
def received (tr : List Ev) : List Reply := tr.filterMap fun | .ctlReply c t => some ⟨c, t⟩ | _ => none

def isTranscript : Ev → Bool
  | .ctlConnect _ _ | .ctlWrite _ | .ctlWriteFail _ | .ctlReply _ _ | .listing _ => true
  | _ => false

def isObs : Ev → Bool
  | .obsConnected _ _ _ | .obsRequest _ _ | .obsReply _ _ _ | .obsFileList _ _ => true
  | _ => false

def isObsOf (o : Nat) : Ev → Bool
  | .obsConnected i _ _ | .obsRequest i _ | .obsReply i _ _ | .obsFileList i _ => i == o
  | _ => false

def isData : Ev → Bool        -- payload movement and user-stream events
  | .dataRead _ _ | .dataReadErr _ | .dataWrite _ _ | .dataWriteErr _ | .sinkWrite _ | .sinkWriteFail | .sinkFlush
  | .srcRead _ _ | .srcFail | .cbBegin | .cbNotify _ | .cbEnd => true
  | _ => false

def isCb : Ev → Bool
  | .cbPoll _ | .cbBegin | .cbNotify _ | .cbEnd => true
  | _ => false

/-- descriptors a trace opens / closes -/
def opened (tr : List Ev) : List Nat := tr.filterMap fun | .dataSocket d => some d | .dataAccept _ d => some d | _ => none
def closed (tr : List Ev) : List Nat := tr.filterMap fun | .dataClose d => some d | _ => none

/-- a command line without its CR LF -/
def lineOf (b : Bytes) : Bytes := b.take (b.length - 2)

/-! ### well-formed servers -/

/-- the script of a server whose every reply is a well-formed RFC 959 reply -/
structure SGroup where
  replies : List WfReply
  act : Option DataAct := none

def SGroup.enc (g : SGroup) : Group := { raws := g.replies.map WfReply.raw, act := g.act }

def WfScript (sc : List SGroup) : Prop := ∀ g ∈ sc, ∀ r ∈ g.replies, r.wf

def replyOf (r : WfReply) : Reply := ⟨r.code, r.text⟩

/-- the session is in step: the control connection is open and what is still unread (buffered or in flight) is exactly
    the encoding of the replies `q` the server has generated and the client has not yet consumed (possibly preceded by
    the LF of a CR LF pair that was cut between two reads) -/
def InStep (w : World) (q : List WfReply) : Prop :=
  w.connected = true ∧ Pending w.ctl w.net q ∧ w.ctl.buf.length ≤ Reader.maxLine ∧ (∀ r ∈ q, r.wf)

end Ftp.Session
