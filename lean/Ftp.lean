import Ftp.Basic
import Ftp.Model.Utils
import Ftp.Model.Reply
import Ftp.Model.Typed
import Ftp.Model.Endpoint
import Ftp.Model.Ascii
import Ftp.Model.CmdParser
import Ftp.Spec.Pure
