import Ftp.Model.ClientTls
import Ftp.Props.C11
/-
  C18 - data connections reuse the control TLS session and context when asked to.
  Model: `Ftp.ClientTls.dataHandshake` (client::ssl_handshake_data_connection).
-/
namespace Ftp.Props.C18
open Ftp Ftp.Client Ftp.ClientTls Ftp.Props.C11

/-- every data-connection handshake of every call offers the control connection's session exactly when the context was
    created with session resumption (and the handshake is performed with the client's own context - the model has
    only one) -/
theorem offers_control_session_iff_resumption (op : SessionOp) (w : WorldT) :
    ∀ d offered ok, EvT.dataTlsHandshake d offered ok ∈ addedT op.run w → offered = w.resume := by
  sorry

/-- without a TLS context no handshake is attempted; with one, a transfer never moves payload without it (C11) and
    performs at most one handshake per call -/
theorem at_most_one_handshake_per_call (op : SessionOp) (w : WorldT) :
    ((addedT op.run w).filter fun e => match e with | .dataTlsHandshake _ _ _ => true | _ => false).length ≤ 1 ∧
    (w.tlsCtx = false → ∀ d o k, EvT.dataTlsHandshake d o k ∉ addedT op.run w) := by
  sorry

/-- the resumption setting is a property of the client's context: no call changes it -/
theorem resumption_setting_is_stable (op : SessionOp) (w : WorldT) :
    (afterT op.run w).resume = w.resume ∧ (afterT op.run w).tlsCtx = w.tlsCtx := by
  sorry

end Ftp.Props.C18
