import Ftp.Spec.Session
/-
  C13 - disconnect always releases the connection; a new connection starts clean.
  Model: `Ftp.Client.connect / disconnect / ctlRecv` (the TLS aspects are in `Ftp.ClientTls`, exercised end to end).
-/
namespace Ftp.Props.C13
open Ftp Ftp.Client Ftp.Session Ftp.Props.C01

/-- a new connection starts clean: whatever the old session left behind - any buffer content, any unread bytes in
    flight, a pending "skip LF", a connection still marked open or closed - the first reply of the new session is the
    new server's greeting, and the session is in step afterwards -/
theorem connect_starts_clean (h : Bytes) (p : Nat) (w : World) (g : WfReply) (rest : List SGroup)
    (hg : g.wf) (h120 : g.code ≠ 120) (hsc : w.script = (⟨[g], none⟩ :: rest).map SGroup.enc) :
    ∃ w', Client.connect h p none w = (.ok (Replies.empty.append (replyOf g)), w') ∧
      (g.code ≠ 421 → InStep w' [] ∧ w'.connected = true) ∧ w'.script = rest.map SGroup.enc := by
  sorry

/-- a non-graceful disconnect sends no command and leaves the client disconnected, from any state -/
theorem nongraceful_disconnect (w : World) :
    result (Client.disconnect false) w = .ok none ∧ (after (Client.disconnect false) w).connected = false ∧
    writes (added (Client.disconnect false) w) = [] ∧
    (w.connected = true → added (Client.disconnect false) w = [Ev.ctlShutdown, Ev.ctlClose]) ∧
    (w.connected = false → added (Client.disconnect false) w = []) := by
  sorry

/-- a graceful disconnect sends QUIT, returns its reply and leaves the client disconnected -/
theorem graceful_disconnect (w : World) (r : WfReply) (rest : List SGroup) (hstep : InStep w []) (hr : r.wf)
    (hsc : w.script = (⟨[r], none⟩ :: rest).map SGroup.enc) :
    result (Client.disconnect true) w = .ok (some (replyOf r)) ∧
    writes (added (Client.disconnect true) w) = [str "QUIT\r\n"] ∧
    (after (Client.disconnect true) w).connected = false := by
  sorry

/-- receiving a 421 reply closes the connection: the client reports not connected -/
theorem reply_421_disconnects (w : World) (r : WfReply) (q : List WfReply) (hstep : InStep w (r :: q)) (h421 : r.code = 421) :
    result ctlRecv w = .ok (replyOf r) ∧ (after ctlRecv w).connected = false ∧
    Ev.ctlClose ∈ added ctlRecv w := by
  sorry

/-- a successful connect reports connected -/
theorem connected_after_connect (h : Bytes) (p : Nat) (c : Option (Bytes × Bytes)) (w : World) (rs : Replies) (w' : World)
    (hc : Client.connect h p c w = (.ok rs, w')) (hno421 : ∀ r ∈ rs.list, r.code ≠ 421) : w'.connected = true := by
  sorry

/-- after a disconnect, operations fail without touching the old connection until a new connect -/
theorem no_write_while_disconnected (op : Op) (w : World) (hd : w.connected = false)
    (hne : ∀ h p c, op ≠ .connect h p c) : writes (added op.run w) = [] := by
  sorry

end Ftp.Props.C13
