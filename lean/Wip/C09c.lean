import Ftp.Spec.Session
import Ftp.Props.C09
/-
  C09 (client level) - one command line per protocol step; caller text cannot inject commands.
-/
namespace Ftp.Props.C09
open Ftp Ftp.Client Ftp.Session Ftp.Endpoint

/-- the caller-supplied texts of a call -/
def textArgs : Op → List Bytes
  | .connect _ _ (some (u, p)) => [u, p]
  | .login u p => [u, p]
  | .simple _ (some a) => [a]
  | .rename a b => [a, b]
  | .download p _ => [p]
  | .upload _ p _ => [p]
  | .list (some p) _ => [p]
  | _ => []

/-- the verbs are the library's own constants -/
def verbOk : Op → Prop
  | .simple v _ => hasCrLf (str v) = false
  | .upload v _ _ => hasCrLf (str v) = false
  | _ => True

/-- every write of every call, in every state, is exactly one line: some text free of CR and LF followed by a single
    CR LF -/
theorem every_write_is_one_line (op : Op) (w : World) (hv : verbOk op) :
    ∀ b ∈ writes (added op.run w), ∃ line, b = line ++ [CR, LF] ∧ hasCrLf line = false := by
  sorry

/-- a call whose caller text contains CR or LF is rejected with an error before anything is sent (and before the
    connection is opened) -/
theorem crlf_argument_rejected (op : Op) (w : World) (h : ∃ a ∈ textArgs op, hasCrLf a = true) :
    result op.run w = .throw ∧ added op.run w = [] := by
  sorry

/-- caller text free of CR and LF is transmitted unchanged: the first command of a simple call is verb SP text -/
theorem text_unchanged (v : String) (a : Bytes) (w : World) (ha : hasCrLf a = false) (hc : w.connected = true) :
    (writes (added (Op.simple v (some a)).run w)).head? = some (str v ++ [SP] ++ a ++ [CR, LF]) := by
  sorry

end Ftp.Props.C09
