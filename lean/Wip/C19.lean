import Ftp.Spec.Pure
/-
  C19 - the command-line parser is total, case-insensitive and inverts its quoting.
  Model: `Ftp.Cmd` (get_command_from_string, parse_command over the stream-extraction contract).
-/
namespace Ftp.Props.C19
open Ftp Ftp.Cmd

/-- the comparison chain of the code recognises exactly the 27 documented (name, command) pairs -/
theorem table_documented :
    verbTable.length = 27 ∧ (∀ p ∈ verbTable, p ∈ Spec.verbs) ∧ (∀ p ∈ Spec.verbs, p ∈ verbTable) ∧
    (verbTable.map (·.1)).Nodup ∧ (verbTable.map (·.2)).Nodup := by
  sorry

/-- a token is accepted as command `c` exactly when it equals the documented name of `c` up to ASCII letter case;
    nothing else is accepted -/
theorem verb_iff (tok : Bytes) (c : Command) :
    commandFromString tok = some c ↔ tok.map Spec.asciiLower = str c.name := by
  sorry

/-- totality: every line gives a command with arguments or the application's own "invalid command" -/
theorem total (line : Bytes) :
    parseCommand line = .invalid ∨ ∃ c args, parseCommand line = .ok c args := by
  cases h : parseCommand line with
  | invalid => exact Or.inl rfl
  | ok c args => exact Or.inr ⟨c, args, rfl⟩

/-- arguments written with the supported quoting, each preceded by a non-empty run of white space -/
def renderArgs : List Bytes → List Bytes → Bytes
  | a :: as, s :: ss => s ++ Spec.quote a ++ renderArgs as ss
  | _, _ => []

/-- round trip: any verb in any letter case, followed by any list of arbitrary byte strings written with double quotes
    and backslash escapes and separated by white space, is recovered exactly (leading / trailing white space allowed) -/
theorem roundtrip (c : Command) (verb : Bytes) (hv : verb.map Spec.asciiLower = str c.name)
    (args seps : List Bytes) (hl : seps.length = args.length)
    (hs : ∀ s ∈ seps, s ≠ [] ∧ ∀ b ∈ s, isSpace b = true)
    (lead trail : Bytes) (hlead : ∀ b ∈ lead, isSpace b = true) (htrail : ∀ b ∈ trail, isSpace b = true) :
    parseCommand (lead ++ verb ++ renderArgs args seps ++ trail) = .ok c args := by
  sorry

/-- non-vacuity -/
example : parseCommand (str "  GeT \"a \\\"b\\\\\" \t\"\" c") = .ok .get [str "a \"b\\", [], str "c"] ∧
    parseCommand (str "gett x") = .invalid ∧ parseCommand (str "get \"unterminated") = .ok .get [] ∧
    parseCommand [] = .invalid := by decide

end Ftp.Props.C19
