import Ftp.Spec.Session
/-
  C14 - observers see exactly the control-channel transcript, in order.
  Model: `Ftp.Client` (client::send / recv / notify_*); every API call of `Ftp.Session.Op`.
-/
namespace Ftp.Props.C14
open Ftp Ftp.Client Ftp.Session

/-- what the registered observers are told around one transcript event, in registration order: a connect, a reply
    and a listing are announced after they happened, a command before it is written -/
def block (obs : List Nat) : Ev → List Ev
  | .ctlConnect h p => .ctlConnect h p :: obs.map (fun o => .obsConnected o h p)
  | .ctlWrite b => obs.map (fun o => .obsRequest o (lineOf b)) ++ [.ctlWrite b]
  | .ctlWriteFail b => obs.map (fun o => .obsRequest o (lineOf b)) ++ [.ctlWriteFail b]
  | .ctlReply c t => .ctlReply c t :: obs.map (fun o => .obsReply o c t)
  | .listing t => .listing t :: obs.map (fun o => .obsFileList o t)
  | e => [e]

/-- what observer `o` must be told for a transcript event -/
def toObs (o : Nat) : Ev → Option Ev
  | .ctlConnect h p => some (.obsConnected o h p)
  | .ctlWrite b => some (.obsRequest o (lineOf b))
  | .ctlWriteFail b => some (.obsRequest o (lineOf b))
  | .ctlReply c t => some (.obsReply o c t)
  | .listing t => some (.obsFileList o t)
  | _ => none

/-- a call only ever appends to the trace, and never changes the set of observers -/
theorem trace_grows (op : Op) (w : World) :
    (after op.run w).trace = w.trace ++ added op.run w ∧ (after op.run w).observers = w.observers := by
  sorry

/-- for every API call in every state (any server behaviour, any fault): the transcript events and the observer events
    of the call are interleaved exactly as `block` prescribes - each command is announced to every registered observer,
    in registration order, immediately before it is written; each connect, each reply as framed and each listing
    immediately after it -/
theorem interleaving (op : Op) (w : World) :
    (added op.run w).filter (fun e => isTranscript e || isObs e) =
      ((added op.run w).filter isTranscript).flatMap (block w.observers) := by
  sorry

/-- hence the event sequence of a registered observer equals the transcript of the control channel -/
theorem log_is_transcript (op : Op) (w : World) (o : Nat) (ho : o ∈ w.observers) (hn : w.observers.Nodup) :
    (added op.run w).filter (isObsOf o) = (added op.run w).filterMap (toObs o) := by
  sorry

/-- an observer that is not registered (never added, or removed) receives nothing -/
theorem unregistered_is_silent (op : Op) (w : World) (o : Nat) (ho : o ∉ w.observers) :
    (added op.run w).filter (isObsOf o) = [] := by
  sorry

/-- non-vacuity: a login seen by two observers -/
example :
    let w : World := { mode := .passive, ttype := .binary, rfc := true, observers := [0, 2], connected := true,
                       script := [{ raws := [str "230 ok\r\n"] }, { raws := [str "200 ok\r\n"] }] }
    (added (Op.login (str "u") (str "p")).run w).filter (isObsOf 2) =
      [.obsRequest 2 (str "USER u"), .obsReply 2 230 (str "230 ok"), .obsRequest 2 (str "TYPE I"), .obsReply 2 200 (str "200 ok")] := by
  decide

end Ftp.Props.C14
