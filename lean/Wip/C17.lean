import Ftp.Spec.Session
/-
  C17 - no socket outlives its purpose, whatever the history.
  Model: `Ftp.Client` (data_connection objects owned by the operation, explicit disconnects, destructor).
-/
namespace Ftp.Props.C17
open Ftp Ftp.Client Ftp.Session

/-- for every API call in every state - whatever the server answers, whether connects succeed, whatever the data
    socket delivers, wherever a sink, a source, a write or a close fails, whether the call returns or throws -
    every data or listening descriptor opened during the call is closed during the call, exactly once, and no
    data_connection object survives the call -/
theorem balanced (op : Op) (w : World) (h : w.conn = none) :
    (after op.run w).conn = none ∧
    (opened (added op.run w)).Perm (closed (added op.run w)) ∧
    (opened (added op.run w)).Nodup := by
  sorry

/-- descriptors are never reused within a client: every descriptor a call opens is new -/
theorem fresh (op : Op) (w : World) (h : w.conn = none) :
    (∀ d ∈ opened (added op.run w), w.nextD ≤ d) ∧ w.nextD ≤ (after op.run w).nextD := by
  sorry

/-- the client holds the control socket exactly while it reports connected: a call changes `connected` only through
    connect (opens), disconnect / a 421 reply (shutdown + close in the trace) -/
theorem control_socket_accounting (op : Op) (w : World) :
    ((after op.run w).connected = true ∧ w.connected = false → ∃ h p, Ev.ctlConnect h p ∈ added op.run w) ∧
    ((after op.run w).connected = false ∧ w.connected = true → Ev.ctlClose ∈ added op.run w) := by
  sorry

/-- non-vacuity: a refused active-mode download closes its listening socket -/
example :
    let w : World := { mode := .active, ttype := .binary, rfc := true, connected := true, listenPorts := [50000],
                       script := [{ raws := [str "200 ok\r\n"] }, { raws := [str "550 no\r\n"] }] }
    opened (added (Op.download (str "f") false).run w) = [1] ∧ closed (added (Op.download (str "f") false).run w) = [1] := by
  decide

end Ftp.Props.C17
