import Ftp.Spec.Session
/-
  C07 - a refused transfer moves no data, leaks nothing and leaves the session usable.
-/
namespace Ftp.Props.C07
open Ftp Ftp.Client Ftp.Session Ftp.Props.C01

def isTransferOp : Op → Bool
  | .download _ _ | .upload _ _ _ | .list _ _ => true
  | _ => false

def refusal (r : WfReply) : Prop := 400 ≤ r.code ∧ r.code ≠ 421

/-- the outcome of a refused transfer -/
structure Refused (op : Op) (w : World) (replies : List WfReply) : Prop where
  returned : ∃ o, result op.run w = .ok o ∧ o.replyList = replies.map replyOf ∧
    (match o with | .replies rs => rs.isPositive = false | .listing rs t => rs.isPositive = false ∧ t = [] | _ => False)
  no_data : ∀ e ∈ added op.run w, isData e = false ∧ e ≠ Ev.cbBegin
  nothing_after_refusal : (writes (added op.run w)).length = replies.length
  no_descriptor : (after op.run w).conn = none ∧ (opened (added op.run w)).Perm (closed (added op.run w))
  in_step : InStep (after op.run w) []

/-- the set-up command (EPSV / PASV / EPRT / PORT) is refused: the operation stops there, in every mode -/
theorem refused_at_setup (op : Op) (w : World) (s : WfReply) (rest : List SGroup) (hop : isTransferOp op = true)
    (hstep : InStep w []) (hconn0 : w.conn = none) (hs : s.wf) (href : refusal s)
    (hsc : w.script = (⟨[s], none⟩ :: rest).map SGroup.enc)
    (hargs : ∀ a ∈ (match op with | .download p _ => [p] | .upload _ p _ => [p] | .list (some p) _ => [p] | _ => []), Endpoint.hasCrLf a = false)
    (hv6 : w.mode = .active → w.rfc = false → w.v6 = false) :
    Refused op w [s] := by
  sorry

/-- the transfer command itself (RETR / STOR / STOU / APPE / LIST / NLST) is refused after an accepted set-up -/
theorem refused_at_main (op : Op) (w : World) (s m : WfReply) (act : Option DataAct) (rest : List SGroup)
    (hop : isTransferOp op = true)
    (hstep : InStep w []) (hconn0 : w.conn = none) (hs : s.wf) (hm : m.wf) (hacc : s.code < 400) (href : refusal m)
    (hsc : w.script = (⟨[s], none⟩ :: ⟨[m], act⟩ :: rest).map SGroup.enc)
    (hargs : ∀ a ∈ (match op with | .download p _ => [p] | .upload _ p _ => [p] | .list (some p) _ => [p] | _ => []), Endpoint.hasCrLf a = false)
    (hv6 : w.mode = .active → w.rfc = false → w.v6 = false)
    (hpassive : w.mode = .passive →
        (w.connectOks.head? = some true) ∧ (w.closeFails.head?.getD false = false) ∧
        (if w.rfc then (Endpoint.parseEpsv s.text).isSome else (Endpoint.parsePasv s.text).isSome))
    (hactive : w.mode = .active → w.closeFails.head?.getD false = false) :
    Refused op w [s, m] := by
  sorry

end Ftp.Props.C07
