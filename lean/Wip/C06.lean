import Ftp.Spec.Pure
import Ftp.Lemmas.Utils
/-
  C06 (pure part) - every number taken from a 227/229 reply is the number written; PORT/EPRT advertise,
  in RFC 959 / RFC 2428 syntax, exactly the given address and port.
  Model: `Ftp.Endpoint.parseEpsv / parsePasv / fmtPort / fmtEprt`.
-/
namespace Ftp.Props.C06
open Ftp Ftp.Utils Ftp.Endpoint

/-- 229: a port is produced exactly for `pre ( d d d <digits> d ) post` (first `(`, last `)`), one delimiter in
    33..126, and the port is the decimal value written, below 65536 -/
theorem epsv_iff (t : Bytes) (p : Nat) :
    parseEpsv t = some p ↔
      ∃ pre d ds post, t = pre ++ [40, d, d, d] ++ ds ++ [d, 41] ++ post ∧ 40 ∉ pre ∧ 41 ∉ post ∧
        33 ≤ d ∧ d ≤ 126 ∧ isDigits ds = true ∧ decValue ds = p ∧ p < 65536 := by
  sorry

/-- 227 soundness: an endpoint is produced only for six comma-separated decimal fields, each at most 255; the
    address is the four numbers written and the port is p1 * 256 + p2 (never wrapped: it is below 65536) -/
theorem pasv_sound (t ip : Bytes) (port : Nat) (h : parsePasv t = some (ip, port)) :
    ∃ pre post f1 f2 f3 f4 f5 f6,
      t = pre ++ [40] ++ f1 ++ [44] ++ f2 ++ [44] ++ f3 ++ [44] ++ f4 ++ [44] ++ f5 ++ [44] ++ f6 ++ [41] ++ post ∧
      (∀ f ∈ [f1, f2, f3, f4, f5, f6], isDigits f = true ∧ decValue f ≤ 255) ∧
      ip = dotted (decValue f1) (decValue f2) (decValue f3) (decValue f4) ∧
      port = decValue f5 * 256 + decValue f6 ∧ port < 65536 := by
  sorry

/-- 227 completeness: every well-formed reply (first `(`, last `)`) is accepted with exactly those numbers -/
theorem pasv_complete (pre post f1 f2 f3 f4 f5 f6 : Bytes) (hpre : 40 ∉ pre) (hpost : 41 ∉ post)
    (hf : ∀ f ∈ [f1, f2, f3, f4, f5, f6], isDigits f = true ∧ decValue f ≤ 255) :
    parsePasv (pre ++ [40] ++ f1 ++ [44] ++ f2 ++ [44] ++ f3 ++ [44] ++ f4 ++ [44] ++ f5 ++ [44] ++ f6 ++ [41] ++ post)
      = some (dotted (decValue f1) (decValue f2) (decValue f3) (decValue f4), decValue f5 * 256 + decValue f6) := by
  sorry

/-- `std::to_string` round-trips through decimal reading -/
theorem toDec_roundtrip (n : Nat) : isDigits (toDec n) = true ∧ decValue (toDec n) = n := by
  sorry

/-- PORT: for every IPv4 address and every port the command is `PORT ` followed by an argument that an RFC 959
    server decodes to exactly that address and port -/
theorem port_roundtrip (a b c d port : Nat) (ha : a < 256) (hb : b < 256) (hc : c < 256) (hd : d < 256)
    (hp : port < 65536) :
    ∃ cmd, fmtPort .v4 (dotted a b c d) port = some cmd ∧ cmd.take 5 = str "PORT " ∧
      Spec.decodePortArg (cmd.drop 5) = some ([a, b, c, d], port) := by
  sorry

/-- PORT is refused for anything that is not IPv4 -/
theorem port_v6_refused (addr : Bytes) (port : Nat) : fmtPort .v6 addr port = none := rfl

/-- EPRT: for both families, every address text free of `|` and every port, the command is `EPRT ` followed by an
    argument that an RFC 2428 server decodes to exactly that family, address and port -/
theorem eprt_roundtrip (fam : Family) (addr : Bytes) (port : Nat) (ha : 124 ∉ addr) (hp : port < 65536) :
    (fmtEprt fam addr port).take 5 = str "EPRT " ∧
    Spec.decodeEprtArg ((fmtEprt fam addr port).drop 5) =
      some ((match fam with | .v4 => 1 | .v6 => 2), addr, port) := by
  sorry

/-- non-vacuity / the repaired defects -/
example : parseEpsv (str "229 Entering Extended Passive Mode (|||6446|)") = some 6446 ∧
    parseEpsv (str "229 ok (||6446|)") = none ∧ parseEpsv (str "229 ok (abc6446x)") = none ∧
    parseEpsv (str "229 ok (|||65536|)") = none ∧
    parsePasv (str "227 Entering Passive Mode (127,0,0,1,198,65)") = some (str "127.0.0.1", 50753) ∧
    parsePasv (str "227 ok (127,0,0,1,256,0)") = none ∧ parsePasv (str "227 ok (1,2,3,4,5,6,)") = none ∧
    parsePasv (str "227 ok (999,0,0,1,4,5)") = none ∧
    fmtPort .v4 (str "10.0.0.1") 50000 = some (str "PORT 10,0,0,1,195,80") ∧
    fmtEprt .v6 (str "::1") 50000 = str "EPRT |2|::1|50000|" := by decide

end Ftp.Props.C06
