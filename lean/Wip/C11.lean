import Ftp.Model.ClientTls
/-
  C11 - with TLS configured nothing but AUTH TLS travels in clear text.
  Model: `Ftp.ClientTls` (connect / AUTH TLS / handshake, login with PBSZ and PROT, data-connection handshake
  after the transfer command is accepted, logout / disconnect) on top of the plain client model.
-/
namespace Ftp.Props.C11
open Ftp Ftp.Client Ftp.ClientTls

def afterT {α} (m : MT α) (w : WorldT) : WorldT := (m w).2
def resultT {α} (m : MT α) (w : WorldT) : Res α := (m w).1
def addedT {α} (m : MT α) (w : WorldT) : List EvT := (afterT m w).trace.drop w.trace.length

/-- command lines written while the control channel is not protected -/
def plainWrites (tr : List EvT) : List Bytes := tr.filterMap fun | .ev false (.ctlWrite b) => some b | _ => none
/-- all command lines written -/
def allWrites (tr : List EvT) : List Bytes := tr.filterMap fun | .ev _ (.ctlWrite b) => some b | _ => none
/-- payload movement on the data connection -/
def isPayload : EvT → Bool
  | .ev _ (.dataRead _ _) | .ev _ (.dataWrite _ _) | .ev _ (.sinkWrite _) | .ev _ (.srcRead _ _) => true
  | _ => false

def AUTH : Bytes := str "AUTH TLS\r\n"

/-- the calls made between connect and logout / disconnect -/
inductive SessionOp
  | login (u p : Bytes)
  | simple (verb : String) (arg : Option Bytes)
  | download (path : Bytes)
  | upload (verb : String) (path : Bytes)
  | list (path : Option Bytes) (names : Bool)

def SessionOp.run : SessionOp → MT Unit
  | .login u p => do let _ ← loginT u p; pure ()
  | .simple v a => do let _ ← lift (Client.simple v a); pure ()
  | .download p => do let _ ← downloadT p; pure ()
  | .upload v p => do let _ ← uploadT v p; pure ()
  | .list p n => do let _ ← fileListT p n; pure ()

/-- connecting with a TLS context - whatever the server answers, whether or not the handshake succeeds, with or
    without credentials: the only command line ever written in clear text is `AUTH TLS` -/
theorem connect_plaintext_is_auth_only (host : Bytes) (port : Nat) (cred : Option (Bytes × Bytes)) (w : WorldT)
    (h : w.tlsCtx = true) :
    plainWrites (addedT (connectT host port cred) w) = [] ∨ plainWrites (addedT (connectT host port cred) w) = [AUTH] := by
  sorry

/-- ... and it is the first command of the connection -/
theorem auth_is_first (host : Bytes) (port : Nat) (cred : Option (Bytes × Bytes)) (w : WorldT) (h : w.tlsCtx = true) :
    allWrites (addedT (connectT host port cred) w) = [] ∨ (allWrites (addedT (connectT host port cred) w)).head? = some AUTH := by
  sorry

/-- after `AUTH TLS` the next step of the client is the TLS handshake - or, when the server refused, nothing at all:
    no credentials, no further command -/
theorem after_auth_handshake_or_stop (host : Bytes) (port : Nat) (cred : Option (Bytes × Bytes)) (w : WorldT)
    (h : w.tlsCtx = true) :
    (∀ ok, EvT.ctlTlsHandshake ok ∉ addedT (connectT host port cred) w →
        allWrites (addedT (connectT host port cred) w) = [] ∨ allWrites (addedT (connectT host port cred) w) = [AUTH]) ∧
    (EvT.ctlTlsHandshake false ∈ addedT (connectT host port cred) w →
        resultT (connectT host port cred) w = .throw ∧ allWrites (addedT (connectT host port cred) w) = [AUTH] ∧
        (addedT (connectT host port cred) w).getLast? = some (EvT.ctlTlsHandshake false)) := by
  sorry

/-- a successful connect with a TLS context leaves the control channel protected -/
theorem connect_protects (host : Bytes) (port : Nat) (cred : Option (Bytes × Bytes)) (w : WorldT) (h : w.tlsCtx = true)
    (hs : EvT.ctlTlsHandshake true ∈ addedT (connectT host port cred) w) :
    (afterT (connectT host port cred) w).ctlTls = true := by
  sorry

/-- between connect and logout / disconnect every call of a protected session writes every command inside TLS, and
    leaves the session protected -/
theorem session_stays_protected (op : SessionOp) (w : WorldT) (h : w.ctlTls = true) :
    plainWrites (addedT op.run w) = [] ∧ (afterT op.run w).ctlTls = true := by
  sorry

/-- the data connection's handshake takes place before the first payload byte moves: no payload event precedes it, and
    with a TLS context no payload event happens in a call that has no successful data handshake -/
theorem data_handshake_before_payload (op : SessionOp) (w : WorldT) (h : w.tlsCtx = true) :
    ∀ pre e post, addedT op.run w = pre ++ e :: post → isPayload e = true →
      ∃ d offered, EvT.dataTlsHandshake d offered true ∈ pre := by
  sorry

/-- ... and after the transfer command was accepted: the event before the handshake (observer notifications and the
    accept of an active-mode connection aside) is the framing of a non-negative reply -/
theorem data_handshake_after_acceptance (op : SessionOp) (w : WorldT) (pre post : List EvT) (d : Nat) (offered ok : Bool)
    (hsplit : addedT op.run w = pre ++ EvT.dataTlsHandshake d offered ok :: post) :
    ∃ tls c t pre', c < 400 ∧
      pre.filter (fun e => match e with | .ev _ (.obsReply _ _ _) | .ev _ (.dataAccept _ _) => false | _ => true) =
        pre' ++ [EvT.ev tls (.ctlReply c t)] := by
  sorry

/-- a failed data handshake is reported and no payload moves -/
theorem data_handshake_failure_stops (op : SessionOp) (w : WorldT) (d : Nat) (offered : Bool)
    (hf : EvT.dataTlsHandshake d offered false ∈ addedT op.run w) :
    resultT op.run w = .throw ∧ ∀ e ∈ addedT op.run w, isPayload e = false := by
  sorry

/-- a download whose data stream ends in an error (the TLS layer reports a missing close-notify as an error, not as
    end-of-file; see C03.read_error_is_reported for the read loop itself) is never returned as a completed transfer:
    when the receive step throws, the whole call throws -/
theorem truncated_stream_is_an_error (path : Bytes) (w : WorldT) (hp : Endpoint.hasCrLf path = false)
    (rs : Replies) (w' : WorldT)
    (hready : createDataConnectionT (str "RETR" ++ [SP] ++ path) Replies.empty w = (.ok (true, rs), w'))
    (hthrow : resultT (lift (dataRecv false w'.base.ttype)) w' = .throw) :
    resultT (downloadT path) w = .throw := by
  sorry

end Ftp.Props.C11
