import Ftp.Spec.Session
/-
  C12 - transfer callbacks bracket and count the transfer; cancellation stops and aborts.
  Model: `Ftp.Client.dataRecv` / `dataSend` with a callback, `finishTransfer`, `processAbort`.
-/
namespace Ftp.Props.C12
open Ftp Ftp.Client Ftp.Session

/-- payload movements over the data connection -/
def moved : Ev → Option Nat
  | .dataRead _ n => if n = 0 then none else some n
  | .dataWrite _ n => some n
  | _ => none

/-- the callback events and the block movements of a trace, in order -/
def cbView (tr : List Ev) : List Ev := tr.filter fun e => isCb e || (moved e).isSome

/-- after `begin`: each block is moved, then notified with its size, then cancellation is polled; a poll that reports
    true is followed by `end` at once (no further block); otherwise `end` comes after the last block -/
def bodyOk : List Ev → Bool
  | [.cbEnd] => true
  | mv :: .cbNotify n :: .cbPoll b :: rest =>
    (moved mv == some n) && (n ≤ 8192) && (if b then rest == [.cbEnd] else bodyOk rest)
  | _ => false

/-- the shape of a transfer with a callback: cancelled before the start (a single poll, nothing else: no begin, no
    end, no byte), or poll - begin - blocks - end -/
def shapeOk : List Ev → Bool
  | [.cbPoll true] => true
  | .cbPoll false :: .cbBegin :: rest => bodyOk rest
  | _ => false

/-- download with a callback: for every payload, every sequence of reads, every poll oracle - whenever the call
    returns, the callback events bracket and count the transfer as `shapeOk` prescribes -/
theorem recv_shape (w : World) (t : TType) (h : result (dataRecv true t) w = .ok ()) :
    shapeOk (cbView (added (dataRecv true t) w)) = true := by
  sorry

/-- upload with a callback -/
theorem send_shape (w : World) (t : TType) (h : result (dataSend true t) w = .ok ()) :
    shapeOk (cbView (added (dataSend true t) w)) = true := by
  sorry

/-- the sum of the notify arguments is the number of bytes moved over the data connection -/
theorem notify_sum_is_bytes_moved (w : World) (t : TType) (h : result (dataRecv true t) w = .ok ()) :
    ((added (dataRecv true t) w).filterMap fun | .cbNotify n => some n | _ => none).sum =
    ((added (dataRecv true t) w).filterMap moved).sum := by
  sorry

/-- cancelled before the start: no byte moves, neither begin nor end is invoked -/
theorem cancelled_before_start (w : World) (t : TType) (h : (w.cancelled || w.polls.head?.getD false) = true) :
    added (dataRecv true t) w = [Ev.cbPoll true] ∧ added (dataSend true t) w = [Ev.cbPoll true] := by
  sorry

/-- once cancellation has been reported, the end of the transfer sends ABOR, reads its replies into the result and
    closes the data connection without a graceful shutdown -/
theorem cancellation_aborts (w : World) (rs : Replies) (d : Nat) (a : Option Nat) (hcan : w.cancelled = true)
    (hc : w.conn = some { sock := some d, acc := a }) (hconn : w.connected = true) :
    (writes (added (finishTransfer true rs) w)).head? = some (str "ABOR\r\n") ∧
    Ev.dataShutdown d ∉ added (finishTransfer true rs) w ∧
    (∀ o, result (finishTransfer true rs) w = .ok o →
        Ev.dataClose d ∈ added (finishTransfer true rs) w ∧
        o.list = rs.list ++ received (added (finishTransfer true rs) w)) := by
  sorry

/-- without cancellation no ABOR is sent -/
theorem no_abort_without_cancellation (w : World) (rs : Replies) (hcan : w.cancelled = false)
    (hp : w.polls.head?.getD false = false) :
    writes (added (finishTransfer true rs) w) = [] := by
  sorry

example :
    let w : World := { mode := .passive, ttype := .binary, rfc := true, act := some (.send (str "hello world")),
                       dataReads := [some 5, some 6, some 0], polls := [false, false, true], conn := some { sock := some 1 } }
    cbView (added (dataRecv true .binary) w) =
      [.cbPoll false, .cbBegin, .dataRead 1 5, .cbNotify 5, .cbPoll false, .dataRead 1 6, .cbNotify 6, .cbPoll true, .cbEnd] := by decide

end Ftp.Props.C12
