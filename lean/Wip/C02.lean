import Ftp.Spec.Session
/-
  C02 - session lockstep: each call returns exactly the replies to its own commands.
  Model: `Ftp.Client` over the byte-level reader; the server is any script whose groups have the shapes RFC 959
  prescribes for the commands they answer (`Shaped`).
-/
namespace Ftp.Props.C02
open Ftp Ftp.Client Ftp.Session Ftp.Props.C01

def verbOf (line : Bytes) : Bytes := line.takeWhile (· != SP)
def transferVerbs : List Bytes := [str "RETR", str "STOR", str "STOU", str "APPE", str "LIST", str "NLST"]
def isTransfer (line : Bytes) : Bool := transferVerbs.contains (verbOf line)
def ABOR : Bytes := str "ABOR"

/-- a server that answers as RFC 959 prescribes: the commands received (`none` = a new connection) with the replies
    generated for each.  One reply per command; 120 may precede the greeting; a transfer command is refused (one
    negative reply) or answered by a preliminary reply and - unless the client aborts before the server has finished -
    a completion reply; ABOR of a transfer that is still running is answered 426 + a second reply, otherwise by one
    reply.  (Out of scope, see the counterexample theorems: ABOR arriving after the server already completed the
    transfer; REIN answered 120 + 220.) -/
inductive Shaped : List (Option Bytes × List WfReply) → Prop
  | nil : Shaped []
  | greeting (g : WfReply) (rest) : g.code ≠ 120 → Shaped rest → Shaped ((none, [g]) :: rest)
  | greeting120 (g0 g : WfReply) (rest) : g0.code = 120 → Shaped rest → Shaped ((none, [g0, g]) :: rest)
  | simple (l : Bytes) (r : WfReply) (rest) : isTransfer l = false → l ≠ ABOR → Shaped rest → Shaped ((some l, [r]) :: rest)
  | refused (l : Bytes) (m : WfReply) (rest) : isTransfer l = true → 400 ≤ m.code → Shaped rest → Shaped ((some l, [m]) :: rest)
  | completed (l : Bytes) (m c : WfReply) (rest) : isTransfer l = true → m.code < 200 →
      (∀ g, rest.head? ≠ some (some ABOR, g)) → Shaped rest → Shaped ((some l, [m, c]) :: rest)
  | aborted426 (l : Bytes) (m a1 a2 : WfReply) (rest) : isTransfer l = true → m.code < 200 → a1.code = 426 →
      Shaped rest → Shaped ((some l, [m]) :: (some ABOR, [a1, a2]) :: rest)
  | aborted (l : Bytes) (m a : WfReply) (rest) : isTransfer l = true → m.code < 200 → a.code ≠ 426 →
      Shaped rest → Shaped ((some l, [m]) :: (some ABOR, [a]) :: rest)

/-- the library's own verbs -/
def opOk : Op → Prop
  | .simple v _ => v ∈ ["CWD", "CDUP", "PWD", "DELE", "MKD", "RMD", "SIZE", "MDTM", "STAT", "SYST", "HELP", "SITE", "NOOP"]
  | .upload v _ _ => v ∈ ["STOR", "STOU", "APPE"]
  | _ => True

/-- the commands of a call paired with the groups the server played for them -/
def exchanged (op : Op) (lines : List Bytes) (sc : List SGroup) : List (Option Bytes × List WfReply) :=
  match op with
  | .connect _ _ _ =>
    (match sc with
     | [] => []
     | g :: gs => (none, g.replies) :: (lines.map fun l => some (lineOf l)).zip (gs.map (·.replies)))
  | _ => (lines.map fun l => some (lineOf l)).zip (sc.map (·.replies))

/-- lockstep: for every API call that returns, in a session that is in step (nothing unread), against every
    well-formed server whose reply groups have the RFC shapes for the commands the call sent: the replies returned
    are exactly the replies generated for the connection opened / the commands sent during the call, in order, and
    nothing is left unread -/
theorem lockstep (op : Op) (w : World) (sc : List SGroup) (hop : opOk op)
    (hstep : InStep w [] ∨ (∃ h p c, op = .connect h p c))
    (hsc : w.script = sc.map SGroup.enc) (hwf : WfScript sc)
    (o : Out) (hret : result op.run w = .ok o)
    (hshape : Shaped (exchanged op (writes (added op.run w)) sc)) :
    o.replyList = ((exchanged op (writes (added op.run w)) sc).map (·.2)).flatten.map replyOf ∧
    Pending (after op.run w).ctl (after op.run w).net [] := by
  sorry

/-- ... so the next call starts in step again (unless the server ended the session with 421) -/
theorem stays_in_step (op : Op) (w : World) (sc : List SGroup) (hop : opOk op)
    (hstep : InStep w [] ∨ (∃ h p c, op = .connect h p c))
    (hsc : w.script = sc.map SGroup.enc) (hwf : WfScript sc)
    (o : Out) (hret : result op.run w = .ok o)
    (hshape : Shaped (exchanged op (writes (added op.run w)) sc))
    (hconn : (after op.run w).connected = true) :
    InStep (after op.run w) [] := by
  sorry

/-- the world of recorded finding K1: the server had already completed the transfer (150, data, 226) when the client's
    ABOR arrives, and answers ABOR with a single 226 -/
def worldK1 : World :=
  { mode := .passive, ttype := .binary, rfc := true, connected := true, connectOks := [true],
    script := [{ raws := [str "229 ok (|||5000|)\r\n"] },
               { raws := [str "150 go\r\n", str "226 transfer complete\r\n"], act := some (.send (str "hello")) },
               { raws := [str "226 abort ok\r\n"] }],
    dataReads := [some 5], polls := [false, true] }

/-- counterexample (K1): the cancelled download returns, but it has read only one of the two remaining replies: the
    reply to ABOR stays unread -/
theorem fails_on_abor_after_completion :
    ∃ rs, result (Op.download (str "f") true).run worldK1 = .ok (.replies rs) ∧
      rs.list.map (·.code) = [229, 150, 226] ∧
      (after (Op.download (str "f") true).run worldK1).net.stream = str "226 abort ok\r\n" := by
  sorry

/-- the world of recorded finding K2: REIN answered 120 then 220 -/
def worldK2 : World :=
  { mode := .passive, ttype := .binary, rfc := true, connected := true,
    script := [{ raws := [str "120 wait\r\n", str "220 ready\r\n"] }] }

/-- counterexample (K2): `logout` returns one reply, the 220 stays unread -/
theorem fails_on_rein_120 :
    ∃ r, result Op.logout.run worldK2 = .ok (.reply r) ∧ r.code = 120 ∧
      (after Op.logout.run worldK2).net.stream = str "220 ready\r\n" := by
  sorry

end Ftp.Props.C02
