import Ftp.Spec.Reader
import Ftp.Lemmas.Utils
/-
  C01 - control replies are framed exactly, independent of network segmentation.
  Model: `Ftp.Reader` (match_eol, read_until contract, control_connection::read_line / recv / is_last_line).
-/
namespace Ftp.Props.C01
open Ftp Ftp.Reader

/-- one line of a reply: its content and the terminator the server chose -/
structure Line where
  text : Bytes
  crlf : Bool
  deriving Repr, DecidableEq

def Line.enc (l : Line) : Bytes := l.text ++ (if l.crlf then [CR, LF] else [LF])

/-- content free of CR and LF, and the whole line (with terminator) shorter than the 8192-byte limit -/
def Line.ok (l : Line) : Prop := CR ∉ l.text ∧ LF ∉ l.text ∧ l.text.length + 2 < maxLine

def digits3 (code : Nat) : Bytes := [48 + code / 100, 48 + code / 10 % 10, 48 + code % 10]

/-- an RFC 959 reply as a list of raw lines -/
structure WfReply where
  code : Nat
  lines : List Line
  deriving Repr, DecidableEq

/-- single-line `ddd SP text`, or multi-line opened by `ddd-` and closed by the first later line that begins with the
    same `ddd` followed by a space (middle lines are arbitrary otherwise: they may start with digits, with another
    code, or with the same code followed by `-`) -/
def WfReply.wf (r : WfReply) : Prop :=
  100 ≤ r.code ∧ r.code ≤ 599 ∧ (∀ l ∈ r.lines, l.ok) ∧
  ((∃ t crlf, r.lines = [⟨digits3 r.code ++ SP :: t, crlf⟩]) ∨
   (∃ t0 c0 mids tn cn,
      r.lines = ⟨digits3 r.code ++ 45 :: t0, c0⟩ :: (mids ++ [⟨digits3 r.code ++ SP :: tn, cn⟩]) ∧
      ∀ m ∈ mids, isLastLine m.enc r.code = false))

/-- the bytes the server sends for the reply -/
def WfReply.raw (r : WfReply) : Bytes := (r.lines.map Line.enc).flatten

/-- the reply's bytes minus the final line terminator -/
def WfReply.text (r : WfReply) : Bytes :=
  (r.lines.dropLast.map Line.enc).flatten ++ (match r.lines.getLast? with | some l => l.text | none => [])

def WfReply.expected (r : WfReply) : RecvR := .reply r.code r.text

def streamOf (rs : List WfReply) : Bytes := (rs.map WfReply.raw).flatten

/-- what is still to come after some replies have been received: the not yet consumed bytes are exactly the encoding of
    the remaining replies, possibly preceded by the LF of a CR LF pair that was cut between two reads (and then the
    reader knows it: `skipLf`) -/
def Pending (c : Ctl) (net : Net) (rest : List WfReply) : Prop :=
  (c.buf ++ net.stream = streamOf rest) ∨ (c.skipLf = true ∧ c.buf ++ net.stream = LF :: streamOf rest)

/-- one receive step yields the next reply exactly, and keeps everything after it for the next step - for every
    delivery schedule and every state of the buffer that `Pending` allows -/
theorem step (r : WfReply) (rest : List WfReply) (hr : r.wf) (c : Ctl) (net : Net)
    (hb : c.buf.length ≤ maxLine) (hp : Pending c net (r :: rest)) :
    ∃ c' net', recv c net = (r.expected, c', net') ∧ Pending c' net' rest ∧ c'.buf.length ≤ maxLine ∧
      net'.sizes.length ≤ net.sizes.length ∧ net'.fin = net.fin := by
  sorry

/-- framing: for every finite sequence of well-formed replies and every way the stream is cut into network reads
    (`sizes`), the receive steps yield exactly the replies, in order; nothing is lost, duplicated or merged -/
theorem framing (rs : List WfReply) (hwf : ∀ r ∈ rs, r.wf) (sizes : List Nat) (fin : End) :
    ∃ c' net', recvMany rs.length {} { stream := streamOf rs, sizes := sizes, fin := fin } =
        (rs.map WfReply.expected, c', net') ∧ Pending c' net' [] := by
  sorry

/-- the result is identical for every two segmentations -/
theorem schedule_independent (rs : List WfReply) (hwf : ∀ r ∈ rs, r.wf) (s1 s2 : List Nat) (f1 f2 : End) :
    (recvMany rs.length {} { stream := streamOf rs, sizes := s1, fin := f1 }).1 =
    (recvMany rs.length {} { stream := streamOf rs, sizes := s2, fin := f2 }).1 := by
  obtain ⟨_, _, h1, _⟩ := framing rs hwf s1 f1
  obtain ⟨_, _, h2, _⟩ := framing rs hwf s2 f2
  rw [h1, h2]

/-- the reference decoder used as the monitor agrees with the structured encoding -/
theorem decode_encode (rs : List WfReply) (hwf : ∀ r ∈ rs, r.wf) :
    Spec.decodeStream (streamOf rs) = some (rs.map fun r => (r.code, r.text)) := by
  sorry

/-- non-vacuity: `150 ok CR | LF 226 done CR LF` (the cut that used to break framing), and a multi-line reply whose
    middle lines start with digits / the same code and `-` -/
example :
    let r1 : WfReply := ⟨150, [⟨str "150 ok", true⟩]⟩
    let r2 : WfReply := ⟨226, [⟨str "226-a", true⟩, ⟨str "226-b", false⟩, ⟨str "2260", true⟩, ⟨str "226 done", true⟩]⟩
    (recvMany 2 {} { stream := streamOf [r1, r2], sizes := [7, 1, 3, 200], fin := .eof }).1 = [r1.expected, r2.expected] ∧
    r2.text = str "226-a\r\n226-b\n2260\r\n226 done" := by decide

end Ftp.Props.C01
