import Ftp.Spec.Session
import Ftp.Props.C06
/-
  C06 (client level) - data connections go to, or are advertised at, exactly the negotiated endpoint.
-/
namespace Ftp.Props.C06
open Ftp Ftp.Client Ftp.Session Ftp.Props.C01 Ftp.Endpoint

def connects (tr : List Ev) : List Ev := tr.filter fun | .dataConnect _ _ _ _ => true | _ => false

/-- EPSV: exactly one data connection is opened, to the control connection's peer address at the port written in the
    229 reply -/
theorem epsv_connects_to_negotiated_port (cmd : Bytes) (rs : Replies) (w : World) (s : WfReply) (rest : List SGroup)
    (port : Nat) (hstep : InStep w []) (hs : s.wf) (hacc : s.code < 400) (hport : parseEpsv s.text = some port)
    (hsc : w.script = (⟨[s], none⟩ :: rest).map SGroup.enc) (hwf : WfScript rest) :
    connects (added (processEpsv cmd rs) w) = [Ev.dataConnect w.nextD (addrText w) port (w.connectOks.head?.getD false)] ∧
    (opened (added (processEpsv cmd rs) w)) = [w.nextD] := by
  sorry

/-- PASV: ... to the IPv4 address and the port p1 * 256 + p2 written in the 227 reply -/
theorem pasv_connects_to_negotiated_endpoint (cmd : Bytes) (rs : Replies) (w : World) (s : WfReply) (rest : List SGroup)
    (ip : Bytes) (port : Nat) (hstep : InStep w []) (hs : s.wf) (hacc : s.code < 400) (hport : parsePasv s.text = some (ip, port))
    (hsc : w.script = (⟨[s], none⟩ :: rest).map SGroup.enc) (hwf : WfScript rest) :
    connects (added (processPasv cmd rs) w) = [Ev.dataConnect w.nextD ip port (w.connectOks.head?.getD false)] ∧
    (opened (added (processPasv cmd rs) w)) = [w.nextD] := by
  sorry

/-- a 227 / 229 reply without well-formed fields is reported as an error: nothing is connected to -/
theorem malformed_passive_reply_is_an_error (cmd : Bytes) (rs : Replies) (w : World) (s : WfReply) (rest : List SGroup)
    (hstep : InStep w []) (hs : s.wf) (hacc : s.code < 400)
    (hsc : w.script = (⟨[s], none⟩ :: rest).map SGroup.enc) :
    (parseEpsv s.text = none → result (processEpsv cmd rs) w = .throw ∧ opened (added (processEpsv cmd rs) w) = []) ∧
    (parsePasv s.text = none → result (processPasv cmd rs) w = .throw ∧ opened (added (processPasv cmd rs) w) = []) := by
  sorry

/-- active mode: the client is already listening (socket, bind to the control connection's local address, listen)
    when it advertises, and the EPRT argument decodes - by the server-side reference decoder - to exactly the family,
    address and port of that listening socket -/
theorem eprt_advertises_listening_socket (cmd : Bytes) (rs : Replies) (w : World) (hconn : w.connected = true)
    (hp : w.listenPorts.head?.getD 0 < 65536) :
    ∃ rest, added (processActive true cmd rs) w =
        [Ev.dataSocket w.nextD, Ev.dataBind w.nextD (addrText w) 0 (w.listenPorts.head?.getD 0), Ev.dataListen w.nextD] ++ rest ∧
      ∃ line, (writes rest).head? = some (line ++ [CR, LF]) ∧ line.take 5 = str "EPRT " ∧
        Spec.decodeEprtArg (line.drop 5) = some ((if w.v6 then 2 else 1), addrText w, w.listenPorts.head?.getD 0) := by
  sorry

/-- PORT likewise for IPv4; for an IPv6 control connection PORT cannot express the endpoint and is refused before
    anything is sent -/
theorem port_advertises_listening_socket (cmd : Bytes) (rs : Replies) (w : World) (hconn : w.connected = true)
    (hp : w.listenPorts.head?.getD 0 < 65536) :
    (w.v6 = false →
      ∃ rest, added (processActive false cmd rs) w =
          [Ev.dataSocket w.nextD, Ev.dataBind w.nextD (addrText w) 0 (w.listenPorts.head?.getD 0), Ev.dataListen w.nextD] ++ rest ∧
        ∃ line, (writes rest).head? = some (line ++ [CR, LF]) ∧ line.take 5 = str "PORT " ∧
          Spec.decodePortArg (line.drop 5) = some ([127, 0, 0, 1], w.listenPorts.head?.getD 0)) ∧
    (w.v6 = true → result (processActive false cmd rs) w = .throw ∧ writes (added (processActive false cmd rs) w) = []) := by
  sorry

/-- at most one connection is accepted per transfer, and only after both the set-up and the transfer command were
    answered non-negatively -/
theorem at_most_one_accept (eprt : Bool) (cmd : Bytes) (rs : Replies) (w : World) :
    ((added (processActive eprt cmd rs) w).filter fun | .dataAccept _ _ => true | _ => false).length ≤ 1 := by
  sorry

end Ftp.Props.C06
