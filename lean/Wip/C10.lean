import Ftp.Spec.Session
import Ftp.Spec.RefAutomaton
/-
  C10 - each operation sends its prescribed commands and advances only as prescribed.
  Model: `Ftp.Client`; reference: `Ftp.Spec.expectedLines` (an automaton over reply codes).
-/
namespace Ftp.Props.C10
open Ftp Ftp.Client Ftp.Session

def settingsOf (w : World) : Spec.Settings :=
  { passive := w.mode == .passive, rfc2428 := w.rfc, asciiType := w.ttype == .ascii, v6 := w.v6 }

/-- the reference call of an API call; `cancelled` = the callback reported cancellation when the transfer ended -/
def callOf (op : Op) (cancelled : Bool) : Spec.Call :=
  match op with
  | .connect _ _ c => .connect c
  | .login u p => .login u p
  | .logout => .simple "REIN" none
  | .simple v a => .simple v a
  | .setType t => .setType (t == .ascii)
  | .rename a b => .rename a b
  | .download p cb => .transfer "RETR" (some p) (cb && cancelled)
  | .upload v p cb => .transfer v (some p) (cb && cancelled)
  | .list p n => .transfer (if n then "NLST" else "LIST") p false
  | .disconnect g => .disconnect g

/-- for every API call that returns, against every server whose replies are well-formed (any codes, any number of
    replies per command): the commands sent are exactly those of the reference automaton driven by the reply codes
    actually received -/
theorem commands_follow_reference (op : Op) (w : World) (q : List Ftp.Props.C01.WfReply) (sc : List SGroup)
    (hstep : InStep w q ∨ (∃ h p c, op = .connect h p c)) (hsc : w.script = sc.map SGroup.enc) (hwf : WfScript sc)
    (hret : ∃ o, result op.run w = .ok o) :
    (writes (added op.run w)).map lineOf =
      Spec.expectedLines (settingsOf w) (callOf op (after op.run w).cancelled)
        ((received (added op.run w)).map (·.code)) (((writes (added op.run w)).head?.map lineOf).getD []) := by
  sorry

/-- every reply received during a call is returned by it, in order -/
theorem every_reply_returned (op : Op) (w : World) (o : Out) (hret : result op.run w = .ok o) :
    o.replyList = received (added op.run w) := by
  sorry

/-- the transfer type the client reports and converts by changes only when the server positively acknowledges a TYPE
    command, and then to the type of that command -/
theorem type_changes_only_on_ack (op : Op) (w : World) (h : (after op.run w).ttype ≠ w.ttype) :
    ∃ t, op = .setType t ∧ (after op.run w).ttype = t ∧
      ((received (added op.run w)).getLast?.map Reply.isPositive) = some true := by
  sorry

/-- connecting with a user name behaves exactly like connecting and then logging in (when the greeting is not
    negative) -/
theorem connect_with_user_is_connect_then_login (h : Bytes) (p : Nat) (u pw : Bytes) (w : World)
    (hu : Endpoint.hasCrLf u = false) (hp : Endpoint.hasCrLf pw = false)
    (rs : Replies) (w1 : World) (h1 : (Client.connect h p none) w = (.ok rs, w1))
    (hpos : (rs.list.getLast?.map Reply.isNegative) = some false) :
    added (Op.connect h p (some (u, pw))).run w = added (Op.connect h p none).run w ++ added (Op.login u pw).run w1 := by
  sorry

end Ftp.Props.C10
