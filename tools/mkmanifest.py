#!/usr/bin/env python3
"""Regenerates MANIFEST.json from the table below (claims) and properties.jsonl (everything else -> not_applicable)."""
import json, os
ROOT = os.path.dirname(os.path.dirname(os.path.abspath(__file__)))
TECH = "Lean 4 theorem on a hand-written model + differential correspondence (real code vs. compiled model) + Lean monitor (the theorem's predicate) on implementation traces"
NOTE_COMMON = ("Tables and constants shared with the source (verb chain, reply-class thresholds, line limit, block sizes) are regenerated "
               "from the tree on every run (tools/gen_source_facts.py -> Ftp/Generated/SourceFacts.lean), as are the one-command member functions of "
               "ftp::client (translated into model programs) and the command literals / decisive reply codes of src/client.cpp "
               "(-> Ftp/Generated/ClientFacts.lean), and proved equal to the model's (Props/*s.lean). "
               "Trusted: Lean kernel (axioms propext, Classical.choice, Quot.sound only; audited each run), the hand-written model and "
               "reference spec, the harness/generators; the tie model<->code is differential testing (sampling + stated exhaustive scopes), not proof. ")

CLAIMS = {
 "C15": dict(
   text="Theorems (all codes, all reply sequences, by induction): classification of every code, default reply, and "
        "replies::append = (non-empty and all positive, members in order, texts joined by CR LF). Correspondence: all 65536 codes and all "
        "short sequences exhaustively, random long ones, real reply/replies classes vs. the Lean model; monitor = the reference spec.",
   note="Pure value classes; nothing modelled away except std::string/std::vector.", ref="DESIGN.md section 7 C15"),
 "C16": dict(
   text="Theorems for every reply (code, text): the size parser equals the reference 'decimal number below 2^64 after the first four "
        "characters' (value never wrapped/truncated/prefix), the time parser equals the reference 'RFC 3659 time-val with a 32-bit "
        "fraction, fields as written' (sound + complete), listing lines = LF pieces minus one CR, round trip and LF-freeness by induction. "
        "Correspondence: real typed-reply classes vs. model on exhaustive small alphabets, limit-straddling digit strings, all single edits "
        "of well-formed time-vals.",
   note="'never throws' is observed on the implementation only (harness classifies escaping exceptions).", ref="DESIGN.md section 7 C16"),
 "C09": dict(
   text="Theorems for all byte strings: make_command yields exactly verb SP text (one CR LF on the wire, at the end) when the text has no "
        "CR/LF and refuses any text containing CR or LF. Correspondence: real client::make_command on exhaustive small alphabets, injection "
        "strings and random byte strings. Client level (theorems for every API call in every state): every write is exactly one line "
        "+ CR LF; a call with CR/LF in any caller text throws before anything is sent or opened; text is transmitted unchanged. "
        "Correspondence: raw bytes written to the in-memory control transport for every text-taking call x injection strings.",
   note="Caller texts are the arguments of the public API; the library's own verbs are constants.", ref="DESIGN.md section 7 C09"),
 "C05": dict(
   text="Theorems for every byte string and every chunking: ascii_istream model (internal buffer >= 1, any short-read pattern of the source, "
        "any caller buffer sizes) emits exactly the whole-string substitution CR LF|CR|LF -> CR LF and its read loop terminates; "
        "ascii_ostream model for every partition into writes + flush emits exactly CR LF -> LF (final CR delivered by flush); LF-only text "
        "round-trips. Correspondence: real converters on all strings over {CR,LF,x} up to a bound x chunkings, random long inputs.",
   note="POSIX branch only. End-to-end TYPE A transfers are exercised by the client-level stages of C03/C04 when built.", ref="DESIGN.md section 7 C05"),
 "C06": dict(
   text="Theorems for all texts: a 229 reply yields a port iff it has the form pre ( d d d digits d ) post with one delimiter in 33..126 and "
        "the port is the decimal value written (< 65536); a 227 reply yields an endpoint only for six decimal fields <= 255 (sound + complete), "
        "port = p1*256+p2 never wrapped; PORT/EPRT arguments decode (server-side reference decoder) to exactly the given address and port for "
        "all addresses/ports; PORT refuses non-IPv4. Correspondence: all 65536 ports both directions, all (p1,p2) in [0,300]^2, all delimiter "
        "bytes, single-character edits, random surrounding text. Client level (Props/C06c.lean, theorems for every set-up reply and every "
        "state): a passive transfer connects exactly once, to the control peer's address and the port of the 229 reply / to the endpoint "
        "of the 227 reply; a malformed passive reply is an error before any connect; EPRT / PORT advertise the address of the control "
        "connection and the port of the listening socket just opened; at most one accept. Correspondence: real client against the "
        "scripted peer (connect targets via libc interposition, several loopback addresses in the e2e stage).",
   note="That the kernel connects where connect() is told, and address <-> text conversion (inet_ntop/pton), are trusted.", ref="DESIGN.md section 7 C06"),
 "C02": dict(
   text="Theorems for every API call that returns, in a session that is in step, against every well-formed server whose reply groups "
        "have the RFC 959 shapes for the commands the call sent (one final reply; preliminary + completion for transfer commands; two for "
        "ABOR of a running transfer) and that answers every command of the call: the replies returned are exactly the replies generated "
        "during the call, in order, nothing is left unread, and the session is in step for the next call (lockstep, stays_in_step; both "
        "are shown false without the full-script hypothesis - a modelling artefact of the scripted server). The two recorded findings are "
        "theorems about the model as well (fails_on_abor_after_completion, fails_on_rein_120) and KNOWN-FINDING lines of the check. "
        "History level (C02h.lean, induction over the list of calls, any environment preparation between calls): in a history of "
        "any length whose calls return against such servers every call is answered in lockstep and leaves nothing unread. "
        "Correspondence + monitor: random and directed histories of all calls x four methods x cancellation points, in-memory control "
        "channel with scripted cuts, real loopback data; TLS and plain sessions over real sockets (e2e stage).",
   note="Two genuine defects are recorded rather than repaired (known_findings.json K1, K2): ABOR answered by a server that had already "
        "completed the transfer, and REIN answered 120 + 220.", ref="DESIGN.md section 7 C02"),
 "C07": dict(
   text="Theorems for every transfer operation (download, upload, append, unique upload, listing) in every mode, in a session that is in "
        "step: a refusal (any 4xx/5xx but 421) of the set-up command or of the transfer command makes the call return - not throw - with "
        "exactly the replies received, a non-positive aggregate, no byte moved to the sink / read from the source, every data descriptor "
        "closed (no_descriptor from C17.balanced), the session connected and in step. Correspondence + monitor: 13 negative codes x "
        "{set-up, main} x {download, upload, listing} x four methods each followed by a normal operation; random histories; refused "
        "transfers inside TLS 1.2 / 1.3 and plain sessions over real sockets.",
   note="Failures of close() on the refused passive data socket are an oracle (hypothesis closeFails = false in refused_at_main).", ref="DESIGN.md section 7 C07"),
 "C13": dict(
   text="Theorems for every state: connect starts from a clean reader (nothing of an old session is returned; the first reply is the new "
        "greeting) and reports connected exactly when it returned; non-graceful disconnect always ends disconnected with the socket "
        "closed and sends nothing; graceful disconnect sends QUIT, returns its reply and closes; a 421 reply disconnects; no call writes "
        "to the server while disconnected. Correspondence + monitor: histories of connect / operations / disconnect / reconnect with the "
        "old session ended normally, by 421, by truncated or garbage replies, with leftovers; TLS histories (failed handshake with "
        "leftover bytes, 421 inside TLS, dropped session) over real sockets.",
   note="TLS layer removal on reconnect is covered by the C11 layer's model (ClientTls) and the e2e stage.", ref="DESIGN.md section 7 C13"),
 "C19": dict(
   text="Theorems: the comparison chain recognises exactly the 27 documented pairs (decide); a token is accepted as command c iff it equals "
        "c's name up to ASCII case (all tokens); totality by type; round trip for every verb variant and every list of arbitrary byte strings "
        "rendered with quotes/escapes and white-space separators (induction over the list). Correspondence: real parse_command on all case "
        "variants, all single edits, all lines over a 7-letter alphabet up to a bound, random full-range lines; exception type classified.",
   note="std::istringstream >> / std::quoted / boost::iequals contracts are transcribed by hand (libstdc++ 12, C locale) and exercised.", ref="DESIGN.md section 7 C19"),
 "C01": dict(
   text="Theorems (induction over the delivery schedule and over the reply list): for every finite sequence of well-formed replies and "
        "every cut of the stream into reads, the receive steps of the reader model yield exactly the replies and keep what follows "
        "(`step`, `framing`, `schedule_independent`), and the reference decoder used as monitor inverts the encoding. Correspondence: real "
        "control_connection::recv (real match_eol + boost::asio::read_until) over an in-memory transport on every stream of a small grammar "
        "x all 2^(n-1) cut sets, directed CR|LF cuts, random long replies.",
   note="boost::asio::read_until on a dynamic_buffer(8192) is transcribed by hand (Model/Reader.lean) and exercised, not proved.", ref="DESIGN.md section 7 C01"),
 "C08": dict(
   text="Theorems for every buffer content, server output, schedule and end-of-stream kind: a receive step terminates within the model's "
        "fuel, asks the transport at most once after its end and then reports an error, never buffers more than 8192 bytes, refuses an "
        "over-long line, and decimal fields are never wrapped. Correspondence (also under ASan+UBSan): arbitrary / mutated / truncated "
        "server output with EOF or an I/O error at every position; outcome classified (reply / ftp_exception / other / livelock / abort).",
   note="Memory safety, UB and exception *types* are dynamic checks (sanitizer build, catch classification), not theorems; the client-level "
        "and data-connection fault positions are exercised by the C13/C17/C11 stages.", ref="DESIGN.md section 7 C08"),
 "C03": dict(
   text="Theorems for every payload and every segmentation into reads of 1..8192 bytes: the binary receive loop hands the sink exactly "
        "the payload, flushes once after the last byte, independent of the segmentation; the ASCII path delivers dlSpec(payload); a read "
        "error is reported and nothing is flushed. Operation level (C03o.lean): for every payload, segmentation, well-formed reply "
        "texts and all four methods, download_file / get_file_list in a session that is in step return exactly the three replies, the "
        "sink / the returned text holds exactly the payload (dlSpec for ASCII), flushed once, no descriptor left, session in step "
        "again. TLS layer (C03t.lean): the same for downloadT on a protected session after a successful data handshake, with no "
        "payload event before the handshake. Correspondence: real ftp::client (in-memory control channel, real loopback data "
        "connections to a scripted peer) x payload sizes around the 8192-byte block x four methods x IPv4/IPv6, listings included; "
        "2-4 clients of one process transferring concurrently, each against its own server (stage conc).",
   note="TCP delivery itself is trusted; TLS data connections are exercised by the e2e stage; that clients of one process share no state "
        "is a modelling assumption exercised by the conc stage.", ref="DESIGN.md section 7 C03"),
 "C04": dict(
   text="Theorems for every payload and every short-read pattern of the source: the bytes written to the data connection are exactly the "
        "source bytes (ASCII: ulSpec), blocks never exceed 8192 bytes, the data socket is shut down and closed before the completion reply "
        "is read, a failed write is reported. Operation level (C04o.lean): for every source content, short-read pattern, verb and all "
        "four methods the whole upload returns the three replies, the peer has exactly the source bytes, shutdown + close precede the "
        "completion reply and no write follows them. TLS layer (C04t.lean): on a protected data connection the trace of every "
        "upload that returns is pre ++ [TLS close-notify, TCP shutdown, close] ++ post with every payload write in pre and the read "
        "of the completion reply in post. Correspondence: real uploads (STOR/STOU/APPE) to the scripted peer, bytes and EOF seen by "
        "the peer, event order from libc interposition.",
   note="Back-pressure / partial sends are handled by boost::asio::write (trusted); observed via coalesced send() events.", ref="DESIGN.md section 7 C04"),
 "C12": dict(
   text="Theorems for every payload, read sequence and poll oracle: the callback events of download and upload have the shape "
        "poll-begin-(block, notify, poll)*-end with notify = block size <= 8192 and nothing after a poll that reported true; cancelled "
        "before start = a single poll; cancellation sends ABOR, closes the data connection without graceful shutdown and returns ABOR's "
        "replies; no ABOR otherwise. Operation level (C12o.lean): a binary download cancelled at the poll after the j-th block, in all "
        "four methods: exactly j blocks reach the sink, the callback sees poll, begin, (notify, poll) x j, end, poll, ABOR is the last "
        "command, the data connection is closed without shutdown, the replies are set-up, preliminary and both replies to ABOR, the "
        "session is in step again. Correspondence: real transfers x cancellation at poll 0..4/never x four methods x both types.",
   note="The lockstep aspect of ABOR (a server that had already completed the transfer) is C02's recorded finding.", ref="DESIGN.md section 7 C12"),
 "C14": dict(
   text="Theorems for every API call in every state (any server behaviour, any fault): the transcript events (connect, command written, "
        "reply framed, listing) and the observer events of the call are interleaved exactly as prescribed - each command announced to "
        "every registered observer in registration order immediately before it is written, each connect / reply / listing immediately "
        "after; hence a registered observer's log equals the transcript and an unregistered one is silent. History level (C14h.lean): for "
        "histories of every length with observers registered / unregistered between calls, an observer's log is exactly the transcript of "
        "the calls made while it was registered. Correspondence: real client "
        "with three recording observers added / removed at random points of random histories (refused, cancelled, multi-reply calls).",
   note="Observer registration changes only between calls (add_observer / remove_observer are not modelled as racing with a call).", ref="DESIGN.md section 7 C14"),
 "C17": dict(
   text="Theorems for every API call in every state, whatever the server answers, whether connects succeed, whatever the data socket "
        "delivers, wherever sink / source / write / close fail, returned or thrown: every data or listening descriptor opened during the "
        "call is closed during it exactly once, descriptors are fresh, no data_connection object survives, and the control socket is "
        "accounted for by connect / close events. History level (C17h.lean, induction over the list of calls): for histories of "
        "every length, whatever happens between and during the calls, opened descriptors = closed descriptors, none used twice, no "
        "data_connection object alive between calls - the count does not grow with the number of operations. Correspondence: libc interposition (socket/accept/close) on long random histories mixing "
        "successful, refused, cancelled and failing transfers in all four methods; descriptor count after each call and after destruction.",
   note="Kernel descriptor semantics are observed, not modelled; TLS data sockets are exercised by the C11/C18 stages.", ref="DESIGN.md section 7 C17"),
 "C10": dict(
   text="Theorems for every API call that returns, in every state, against every server: the command lines written are exactly those of "
        "the reference automaton (Spec/RefAutomaton.lean) driven by the reply codes actually received; every reply received is returned in "
        "order; the reported transfer type changes only on a positively answered TYPE command; connect with a user name = connect then "
        "login. Correspondence: login x 15 reply codes at each step, rename, TYPE and every simple call x every code, both types, random "
        "histories; real client vs. model vs. reference automaton.",
   note="TLS variants (C10t.lean, theorems over the TLS layer of the model): login with a TLS context writes exactly loginLinesTls "
        "(USER, PASS after 331, PBSZ 0, PROT P, TYPE; stopping at the first negative reply), connect writes connectLinesTls (greeting, "
        "AUTH TLS, handshake, login), driven by the codes received, and returns the replies received.", ref="DESIGN.md section 7 C10"),
 "C20": dict(
   text="Theorems over the application model for every input script, server and directory: the program ends with success status and only "
        "at `exit` or end of input; a connection-needing command while disconnected answers 'Connection is not open.' and changes "
        "nothing; `get` never changes or removes an existing entry, refuses an existing name before sending anything, and removes the "
        "file of a refused download; a library error drops the connection. Correspondence: the real cmdline binary (built from the tree) "
        "as a subprocess against the scripted server: stdout, exit status, directory before/after, commands seen by the server.",
   note="The message of an ftp_exception and the help text are wild cards in the stdout comparison; the real file system is observed, "
        "the model knows plain names only (no sub-directories, no symlinks).", ref="DESIGN.md section 7 C20"),
 "C11": dict(
   text="Theorems over the TLS layer of the model, for every server behaviour and handshake outcome: connecting with a TLS context "
        "writes at most `AUTH TLS` in clear text and it is the first command; after it comes the handshake or - on refusal / failure - "
        "nothing (no credentials, the call reports it); every later call of the session writes only inside TLS; the data handshake "
        "precedes every payload event and follows the non-negative reply to the transfer command; a failed data handshake or a stream "
        "that ends in an error is reported, never delivered. Correspondence: the unmodified client over real sockets against an "
        "in-process FTPS server (own CA, TLS 1.2/1.3): raw bytes of every send()/sendmsg() parsed as TLS records, what the server "
        "received in plaintext, planted secrets searched in all captured bytes; refusals and failures injected at AUTH TLS, the control "
        "handshake (garbage, unknown CA x verify_peer/none), PBSZ/PROT, login, and truncation after 0..20000 bytes.",
   note="partial: that boost::asio::ssl::stream / OpenSSL encrypt what is written through an established SSL and map a missing "
        "close-notify to stream_truncated (not eof) is trusted and only exercised; the theorems are about which channel state each write "
        "happens in.", ref="DESIGN.md section 7 C11"),
 "C18": dict(
   text="Theorems: every data-connection handshake of every call offers the control session exactly when the context was created "
        "with resumption; at most one handshake per call and none without a TLS context; the setting is stable. Correspondence: "
        "interposed SSL_new / SSL_set_session (context identity, offered session = the control connection's current session) and the "
        "server's SSL_session_reused() per data connection, TLS 1.2/1.3 x four methods x server requiring reuse, 2-6 consecutive "
        "transfers, reconnects; found and repaired F11 (TLS 1.3 session usable only once).",
   note="partial: what OpenSSL does with the offered session (tickets, resumption) is trusted and observed on the server side; the "
        "model has a single context, so context identity is checked on the implementation only.", ref="DESIGN.md section 7 C18"),
}
PENDING = "check not built yet (work in progress; see DESIGN.md section 12)"

def main():
    props = [json.loads(l) for l in open(os.path.join(ROOT, "properties.jsonl"))]
    checks = []; na = []
    for p in props:
        pid = p["id"]
        if pid in CLAIMS:
            c = CLAIMS[pid]
            checks.append({
                "property_id": pid,
                "quick_cmd": "python3 tools/vcheck.py %s quick" % pid,
                "thorough_cmd": "python3 tools/vcheck.py %s thorough" % pid,
                "evidence_file": "evidence/%s.json" % pid,
                "replay_cmd_template": "python3 tools/vcheck.py --replay {path}",
                "engine": "lean-model+harness",
                "level_claimed": {"category": "proof", "text": c["text"], "design_ref": c["ref"]},
                "level_note": NOTE_COMMON + c["note"],
                "technique": TECH,
            })
        else:
            na.append({"property_id": pid, "reason": PENDING})
    m = {
        "version": 1,
        "setup_cmd": "python3 tools/vcheck.py --setup",
        "hooks": {"guard": "LIBFTP_VERIF",
                  "enable": "none: the harness is built from /repo's working tree with -fno-access-control and link-time symbol interposition; no source hook is compiled in",
                  "baseline_off_cmd": "cmake --build /repo/_build && ctest --test-dir /repo/_build -j8 --timeout 900",
                  "source_commits": [], "add_only": True},
        "engines": [
            {"name": "lean-model", "path": "lean/", "serves_properties": sorted(CLAIMS), "kind_free_text": "Lean 4 model, reference specs, property theorems, compiled driver (ftpdriver)"},
            {"name": "harness", "path": "harness/", "serves_properties": sorted(CLAIMS), "kind_free_text": "C++ harnesses compiled against /repo's working tree (in-memory transport, scripted peer, libc interposition)"},
            {"name": "orchestrator", "path": "tools/", "serves_properties": sorted(CLAIMS), "kind_free_text": "vcheck.py: audit + build + generators + verdict + evidence"},
        ],
        "checks": checks,
        "not_applicable": na,
        "notes": "Every check: python3 tools/vcheck.py <id> quick|thorough; honours VERIF_SEED / VERIF_TIER. known_findings.json lists recorded findings and repaired defects.",
    }
    json.dump(m, open(os.path.join(ROOT, "MANIFEST.json"), "w"), indent=1)

if __name__ == "__main__":
    main()
