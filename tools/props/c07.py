from props.client_props import gen_c07

from props.e2egen import *
from props.e2egen import line as eline

def gen_e2e(ctx):
    """refused transfers inside TLS sessions (and plain sessions over real sockets), all four methods"""
    rng = ctx["rng"]
    noop = "noop@" + R(b"200 ok")
    for ver in (13, 12):
        for tls in (1, 0):
            for mode in "pa":
                for rfc in (0, 1):
                    c = cfg_str(mode=mode, rfc=rfc, ver=ver, tls=tls, prop="C07")
                    for code in (550, 450, 425, 553):
                        ops = [connect(tls=bool(tls)), get(mode, rfc, main=code), noop, get(mode, rfc), "put:STOR:%s:g1.100@%s/%s" % (H(b"f"), setup(mode, rfc), R(b"%d no" % code)), noop,
                               "list@" + "/".join([R(b"%d no" % code)]), noop, put(mode, rfc), "disc:1@" + R(b"221 bye")]
                        yield eline(c, ops)
    ctx["scopes"].append("refusal of the transfer command / of the set-up command with 550, 450, 425, 553 x TLS 1.2 / 1.3 / plain x four methods, interleaved with accepted transfers")

PROP = {"id": "C07", "stages": [{"name": "client", "target": "h_client", "gen": gen_c07, "shard": 12},
                   {"name": "e2e", "target": "h_e2e", "gen": gen_e2e, "shard": 4}], "trivial_tags": [],
        "rule": 'every negative code of a 13-code list x {set-up, main command} x {download, upload, listing} x four methods, each followed by a normal operation, plus random histories interleaving refused and accepted operations; recording sink/source, descriptor table, returned replies, unread bytes, lockstep of the next call.',
        "assumptions": ["in-memory control transport (a socket_base subclass) stands in for the TCP control socket; data connections are real loopback TCP", "oracle values (read sizes, kernel-chosen ports, connect results) are taken from the implementation run"]}
