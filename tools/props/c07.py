from props.client_props import gen_c07
PROP = {"id": "C07", "stages": [{"name": "client", "target": "h_client", "gen": gen_c07, "shard": 12}], "trivial_tags": [],
        "rule": 'every negative code of a 13-code list x {set-up, main command} x {download, upload, listing} x four methods, each followed by a normal operation, plus random histories interleaving refused and accepted operations; recording sink/source, descriptor table, returned replies, unread bytes, lockstep of the next call.',
        "assumptions": ["in-memory control transport (a socket_base subclass) stands in for the TCP control socket; data connections are real loopback TCP", "oracle values (read sizes, kernel-chosen ports, connect results) are taken from the implementation run"]}
