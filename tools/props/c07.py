from props.client_props import gen_c07
PROP = {"id": "C07", "stages": [{"name": "client", "target": "h_client", "gen": gen_c07, "shard": 12}], "trivial_tags": [], "rule": "", "assumptions": []}
