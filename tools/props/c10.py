from props.client_props import gen_c10
PROP = {"id": "C10", "stages": [{"name": "client", "target": "h_client", "gen": gen_c10, "shard": 12}], "trivial_tags": [], "rule": "", "assumptions": []}
