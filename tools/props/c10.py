from props.client_props import gen_c10

from props.e2egen import *
from props.e2egen import line as eline

def gen_e2e(ctx):
    """TLS (and plain) sessions over real sockets: login / logout / login, a second login, 421 then connect without
    disconnect, reconnects - the command sequence of every call against the reference automaton with AUTH TLS / PBSZ / PROT"""
    rng = ctx["rng"]
    noop = "noop@" + R(b"200 ok")
    def login(codes=(331, 230), pbsz=200, prot=200, tls=1):
        g = [R(b"%d user" % codes[0])]
        last = codes[0]
        if codes[0] == 331:
            g.append(R(b"%d pass" % codes[1])); last = codes[1]
        if last < 400:
            if tls:
                g.append(R(b"%d pbsz" % pbsz))
                if pbsz < 400: g.append(R(b"%d prot" % prot))
            g.append(R(b"200 type"))
        return "login:%s:%s@" % (H(b"user2"), H(b"pass2")) + "/".join(g)
    for ver in (13, 12):
        for tls in (1, 0):
            c = cfg_str(ver=ver, tls=tls, prop="C10")
            con = lambda **kw: connect(tls=bool(tls), **kw)
            yield eline(c, [con(), noop, "logout@" + R(b"220 reinitialised"), login(tls=tls), noop, "disc:1@" + R(b"221 bye"), con(), noop, get("p", 1)])
            yield eline(c, [con(), login(tls=tls), noop, get("p", 1)])
            yield eline(c, [con(), "noop@" + R(b"421 closing") + ",X", "isconn", con(), noop, get("p", 1)])
            yield eline(c, [con(), "noop@" + R(b"421 closing") + ",X", "disc:0", con(), noop])
            yield eline(c, [con(user=None), login(tls=tls), "logout@" + R(b"220 again"), login(tls=tls), "logout@" + R(b"500 no"), login(tls=tls), noop])
            for codes in ((331, 230), (331, 530), (230, 0), (530, 0), (332, 0)):
                for pbsz, prot in ((200, 200), (500, 200), (200, 534)):
                    yield eline(c, [con(user=None), login(codes=codes, pbsz=pbsz, prot=prot, tls=tls), noop])
            # a 120 first, then every class of greeting: AUTH TLS / USER only after a greeting that is not negative
            for g in (220, 230, 421, 500, 530):
                yield eline(c, [con(greeting=g, pre120=True)] + ([] if g == 421 else [noop]))
    ctx["scopes"].append("TLS 1.2/1.3 and plain sessions over real sockets: login/logout/login, second login, 421 then connect with and without disconnect, login x 5 code patterns x PBSZ/PROT refusals")

PROP = {"id": "C10", "stages": [{"name": "client", "target": "h_client", "gen": gen_c10, "shard": 12},
                   {"name": "e2e", "target": "h_e2e", "gen": gen_e2e, "shard": 4}], "trivial_tags": [],
        "rule": 'login x every code class at USER / PASS / TYPE, connect with user, rename, TYPE and every simple call x 15 reply codes (incl. 230, 331, 332, 350, 421, 530), both configured types, random histories; command lines written vs. the reference automaton driven by the codes received; returned replies; reported transfer type.',
        "assumptions": ["in-memory control transport (a socket_base subclass) stands in for the TCP control socket; data connections are real loopback TCP", "oracle values (read sizes, kernel-chosen ports, connect results) are taken from the implementation run"]}
