from props.client_props import gen_c10
PROP = {"id": "C10", "stages": [{"name": "client", "target": "h_client", "gen": gen_c10, "shard": 12}], "trivial_tags": [],
        "rule": 'login x every code class at USER / PASS / TYPE, connect with user, rename, TYPE and every simple call x 15 reply codes (incl. 230, 331, 332, 350, 421, 530), both configured types, random histories; command lines written vs. the reference automaton driven by the codes received; returned replies; reported transfer type.',
        "assumptions": ["in-memory control transport (a socket_base subclass) stands in for the TCP control socket; data connections are real loopback TCP", "oracle values (read sizes, kernel-chosen ports, connect results) are taken from the implementation run"]}
