from props.client_props import gen_c13
PROP = {"id": "C13", "stages": [{"name": "client", "target": "h_client", "gen": gen_c13, "shard": 12}], "trivial_tags": [],
        "rule": 'histories of connect / operations / disconnect(graceful or not) / reconnect with the old session ended normally, by 421, by a truncated or garbage reply, with leftover replies / partial lines / a lone LF in the old session, after failed transfers; connected flag, control life-cycle events, first reply of the next connect.',
        "assumptions": ["in-memory control transport (a socket_base subclass) stands in for the TCP control socket; data connections are real loopback TCP", "oracle values (read sizes, kernel-chosen ports, connect results) are taken from the implementation run"]}
