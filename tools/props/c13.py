from props.client_props import gen_c13
from props.e2egen import *

def gen_e2e(ctx):
    """TLS histories: failed control handshake (garbage / unknown CA) with bytes left over from the old session, then
    disconnect(false) and a new connect; 421 inside a TLS session then connect; normal TLS sessions with reconnects"""
    rng = ctx["rng"]
    noop = "noop@" + R(b"200 ok")
    left = ",".join([R(b"234 auth"), R(b"999 LEFTOVER from the old session")])
    for ver in (13, 12):
        for verify in ("peer", "none"):
            c = cfg_str(ver=ver, verify=verify, prop="C13")
            # AUTH TLS accepted, an extra reply in the same segment, then the handshake breaks
            for brk in ("G", "T,B"):
                g = "connect:-:-:%s:%s@%s/%s,%s" % (H(b"user"), H(b"pass"), R(b"220 one"), left, brk)
                yield line(c, [g, "isconn", "disc:0", "isconn", connect(), noop, "disc:1@" + R(b"221 bye"), "isconn"])
                yield line(c, [g, "disc:0", connect(user=None), noop])
            # 421 inside a TLS session, then a direct connect (no disconnect in between) and with one
            yield line(c, [connect(), "noop@" + R(b"421 closing") + ",X", "isconn", connect(), noop])
            yield line(c, [connect(), "noop@" + ",".join([R(b"421 closing"), R(b"999 LEFTOVER")]) + ",X", "isconn", "disc:0", connect(), noop])
            # server drops the TLS session without close-notify; non-graceful disconnect; reconnect
            yield line(c, [connect(), "noop@X", "disc:0", "isconn", connect(), noop, "disc:0", "isconn"])
            yield line(c, [connect(), get("p", 1, end="t"), "disc:0", "isconn", connect(), get("p", 1), "disc:1@" + R(b"221 bye")])
    ctx["scopes"].append("TLS 1.2/1.3 x verify peer/none: failed control handshake with leftover bytes, 421 inside TLS, dropped session, truncated data stream - each followed by disconnect / reconnect")

PROP = {"id": "C13", "stages": [{"name": "client", "target": "h_client", "gen": gen_c13, "shard": 12},
                   {"name": "e2e", "target": "h_e2e", "gen": gen_e2e, "shard": 4}], "trivial_tags": [],
        "rule": 'histories of connect / operations / disconnect(graceful or not) / reconnect with the old session ended normally, by 421, by a truncated or garbage reply, with leftover replies / partial lines / a lone LF in the old session, after failed transfers; connected flag, control life-cycle events, first reply of the next connect.',
        "assumptions": ["in-memory control transport (a socket_base subclass) stands in for the TCP control socket; data connections are real loopback TCP", "oracle values (read sizes, kernel-chosen ports, connect results) are taken from the implementation run"]}
