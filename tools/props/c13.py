from props.client_props import gen_c13
PROP = {"id": "C13", "stages": [{"name": "client", "target": "h_client", "gen": gen_c13, "shard": 12}], "trivial_tags": [], "rule": "", "assumptions": []}
