from props.client_props import gen_c14
PROP = {"id": "C14", "stages": [{"name": "client", "target": "h_client", "gen": gen_c14, "shard": 12}], "trivial_tags": [],
        "rule": 'three recording observers added / removed at random points of random histories (simple, multi-reply, refused, cancelled calls, transfers, listings); observer tokens vs. the transcript (commands written, replies consumed) in wire order.',
        "assumptions": ["in-memory control transport (a socket_base subclass) stands in for the TCP control socket; data connections are real loopback TCP", "oracle values (read sizes, kernel-chosen ports, connect results) are taken from the implementation run"]}
