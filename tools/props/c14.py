from props.client_props import gen_c14
PROP = {"id": "C14", "stages": [{"name": "client", "target": "h_client", "gen": gen_c14, "shard": 12}], "trivial_tags": [], "rule": "", "assumptions": []}
