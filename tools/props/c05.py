"""C05 - ASCII type converts line endings exactly, independent of chunking."""
from props.client_props import gen_c05_client
from rng import hx, hexlist, natlist
import itertools

def partitions(b):
    n = len(b)
    if n == 0:
        yield []
        return
    for mask in range(1 << (n - 1)):
        parts = []; start = 0
        for i in range(n - 1):
            if mask >> i & 1:
                parts.append(b[start:i + 1]); start = i + 1
        parts.append(b[start:])
        yield parts

def boundary(ctx):
    """blocks of exactly / around the converters' 8192-byte internal buffers, with a CR carried over from the block before"""
    for pre in (b"", b"abc\r", b"\r", b"a\r\r", b"\r\n", b"x"):
        for n in (8191, 8192, 8193, 16384):
            for fill in (b"x" * n, b"x" * (n - 1) + b"\r", b"\n" + b"x" * (n - 1), b"x" * (n - 2) + b"\r\n", b"\r" * n, b"\r\n" * (n // 2)):
                yield "dl " + hexlist([p for p in (pre, fill, b"tail\r") if p])
                yield "dl " + hexlist([p for p in (pre, fill[:n // 2], fill[n // 2:]) if p])
                yield "ul 8192 %s %s %s" % (hx(pre + fill), natlist([8192] * 8), natlist([8192] * 8))
                yield "ul 8192 %s %s %s" % (hx(pre + fill), natlist([len(pre) or 1] + [8192] * 8), natlist([8192] * 8))
    ctx["scopes"].append("both converters on blocks of 8191 / 8192 / 8193 / 16384 bytes (plain, CR at the end, LF at the start, CR LF at the end, all CR, all CR LF) after a block ending in CR")

def gen_asan(ctx):
    """the same converters under ASan + UBSan: boundary blocks and a sample of the random scenarios"""
    yield from boundary(ctx)
    k = 0
    for l in gen(dict(ctx, scopes=[])):
        k += 1
        if k % 7 == 0:
            yield l

def gen(ctx):
    rng = ctx["rng"]; tier = ctx["tier"]
    LU = 6 if tier == "quick" else 8
    LD = 7 if tier == "quick" else 8
    for k in range(0, LU + 1):
        for t in itertools.product(b"\r\nx", repeat=k):
            d = bytes(t)
            for bs in (1, 2, 3, 8192):
                for chop in (1, 2, 3, 8192):
                    for cs in (1, 2, 3, 5, 8192):
                        m = 2 * len(d) + 2
                        yield "ul %d %s %s %s" % (bs, hx(d), natlist([chop] * m), natlist([cs] * m))
    ctx["scopes"].append("upload converter: every string over {CR,LF,x} up to length %d x internal buffer {1,2,3,8192} x uniform source chop {1,2,3,8192} x uniform caller size {1,2,3,5,8192}" % LU)
    for k in range(0, LD + 1):
        for t in itertools.product(b"\r\nx", repeat=k):
            for parts in partitions(bytes(t)):
                yield "dl " + hexlist(parts)
    ctx["scopes"].append("download converter: every string over {CR,LF,x} up to length %d x every partition into write calls" % LD)
    yield from boundary(ctx)
    n = 6000 if tier == "quick" else 150000
    for i in range(n):
        ln = rng.range(0, 60) if rng.chance(98, 100) else rng.choice([8191, 8192, 8193, 4000, 9000])
        d = rng.bytes(ln, alphabet=b"\r\n\r\nabc") if rng.chance(4, 5) else rng.bytes(ln)
        if i % 2 == 0:
            bs = rng.choice([1, 2, 3, 4, 7, 64, 8192])
            sched = [rng.range(1, 9) for _ in range(rng.range(0, 40))]
            sizes = [rng.choice([1, 1, 2, 3, 5, 16, 8192]) for _ in range(rng.range(0, 60))]
            yield "ul %d %s %s %s" % (bs, hx(d), natlist(sched), natlist(sizes))
        else:
            parts = []; pos = 0
            while pos < len(d):
                k = rng.choice([1, 1, 2, 3, 8, 100, 8192]); parts.append(d[pos:pos + k]); pos += k
            if rng.chance(1, 5):
                parts.insert(rng.below(len(parts) + 1), b"")
            yield "dl " + hexlist(parts)

PROP = {
    "id": "C05",
    "stages": [{"name": "pure", "target": "h_pure", "gen": gen},
               {"name": "pure-asan", "target": "h_pure", "sanitize": True, "gen": gen_asan},
               {"name": "client", "target": "h_client", "gen": gen_c05_client, "shard": 12}],
    "trivial_tags": ["plain", "nocr"],
    "rule": "real ascii_istream (behind a chopping source, read with chosen caller sizes until it returns 0) and ascii_ostream (chosen write "
            "partition, then flush, into a recording sink) compared with the Lean model under the same chunking and with the whole-string "
            "reference substitution. Non-trivial = input contains CR or LF (upload) / CR (download); distinct = distinct (data, chunking) lines.",
    "assumptions": ["POSIX branch only (the _WIN32 branch is not compiled here)", "the source is honest: after its first empty read it keeps returning 0"],
}
