"""C20 - the interactive client survives any input and server, and protects local files."""
from props.cligen import H, R, rnd_reply, NEG
from rng import hexlist

VERBS = ["open", "user", "cd", "cdup", "ls", "pwd", "mkdir", "rmdir", "put", "get", "rename", "size", "del", "stat", "syst", "type",
         "binary", "ascii", "mode", "active", "passive", "noop", "rhelp", "logout", "close", "help", "exit"]
NET = ["user", "cd", "cdup", "ls", "pwd", "mkdir", "rmdir", "put", "get", "rename", "size", "del", "stat", "syst", "type", "binary", "ascii", "noop", "rhelp", "logout", "close"]
LONG = b"n" * 300
VERYLONG = b"p" * 5000

def files_spec(files):
    """(name, bytes) = file, (name, None) = directory, (name, ("link", target)) = symbolic link"""
    def one(n, c):
        if c is None: return H(n) + "/"
        if isinstance(c, tuple): return "%s@%s" % (H(n), H(c[1]))
        return "%s=%s" % (H(n), H(c))
    return ";".join(one(n, c) for n, c in files) if files else "-"

def scenario(groups, files, lines):
    return "app %s %s %s" % ("/".join(groups) if groups else "-", files_spec(files), hexlist(lines))

LOGIN = [R(b"220 ready"), R(b"331 pw"), R(b"230 in"), R(b"200 type")]
OPEN = [b"open 127.0.0.1 $PORT", b"user", b"secret"]

def xfer(kind, payload=b"hello\r\nworld", main=150, comp=226, setup="E"):
    g = [setup]
    if main < 400:
        act = "Dsend:h%s::c" % payload.hex() if kind != "put" else "Drecv:-:c"
        g.append(",".join([R(b"%d go" % main), R(b"%d done" % comp), act]))
    else:
        g.append(R(b"%d no" % main))
    return g

def gen(ctx):
    rng = ctx["rng"]; tier = ctx["tier"]
    files = [(b"keep.txt", b"precious"), (b"data.bin", bytes(range(256)) * 40), (b"sub", None), (b"sub/remote.bin", b"inside the directory"), (b"sub/keep.txt", b"also precious")]
    # every verb while disconnected, with 0..3 arguments
    for v in VERBS:
        for nargs in range(0, 4):
            if v == "open":
                continue
            l = (v + " " + " ".join(["arg%d" % i for i in range(nargs)])).strip().encode()
            yield scenario([], files, [l, b"pwd", b"exit"])
    # every verb after login, with 0..3 arguments (prompts consume the following lines)
    for v in VERBS:
        for nargs in range(0, 4):
            if v in ("open", "exit") and nargs == 0 and v == "exit":
                pass
            l = (v + " " + " ".join(["arg%d" % i for i in range(nargs)])).strip().encode()
            groups = LOGIN + [rnd_reply(rng, rng.choice([200, 250, 213, 550])) for _ in range(4)] + [R(b"221 bye")]
            yield scenario(groups, files, OPEN + [l, b"extra1", b"extra2", b"noop", b"exit"])
    ctx["scopes"].append("all 27 verbs x 0..3 arguments, disconnected and after login")
    # get: existing file, directory, over-long names, path-like names, refused download, successful download
    for loc in (b"keep.txt", b"sub", b".", b"..", b"sub/remote.bin", LONG, VERYLONG, b"nodir/x", b"new.bin", b"", b"a b",
                b"report%20final.txt", b"100%", b"%s%n%x", b"a%1%b%2%", b"%|1$s|"):
        for main in (150, 550, 450):
            groups = LOGIN + xfer("get", main=main) + [R(b"200 noop"), R(b"221 bye")]
            yield scenario(groups, files, OPEN + [b"get remote.bin \"" + loc + b"\"", b"noop", b"exit"])
            yield scenario(groups, files, OPEN + [b"get \"" + loc + b"\"", b"noop", b"exit"])
    # a directory as destination, holding a file named like the remote one (with and without a path in the remote name)
    for rem in (b"remote.bin", b"pub/remote.bin", b"keep.txt", b"/abs/keep.txt"):
        for loc in (b"sub", b"."):
            for main in (150, 550):
                groups = LOGIN + xfer("get", main=main) + [R(b"200 noop"), R(b"221 bye")]
                yield scenario(groups, files, OPEN + [b"get " + rem + b" " + loc, b"noop", b"exit"])
    # symbolic links as destination: one that points to an existing file, a dangling one (exists() follows links and says no)
    lfiles = files + [(b"to-keep", ("link", b"keep.txt")), (b"dangling", ("link", b"no-such-target"))]
    for loc in (b"to-keep", b"dangling"):
        for main in (150, 550, 450):
            groups = LOGIN + xfer("get", main=main) + [R(b"200 noop"), R(b"221 bye")]
            yield scenario(groups, lfiles, OPEN + [b"get remote.bin " + loc, b"noop", b"exit"])
        groups = LOGIN + xfer("get", comp=451) + [R(b"200 noop"), R(b"221 bye")]
        yield scenario(groups, lfiles, OPEN + [b"get remote.bin " + loc, b"noop", b"exit"])
    for comp in (226, 451, 552):
        groups = LOGIN + xfer("get", comp=comp) + [R(b"200 noop"), R(b"221 bye")]
        yield scenario(groups, files, OPEN + [b"get remote.bin fresh.bin", b"noop", b"exit"])
    # names with format directives in every command that echoes user text in a message
    for name in (b"report%20final.txt", b"%1%", b"%s%s%n", b"100%"):
        groups = LOGIN + [R(b"550 no")] * 3 + [R(b"221 bye")]
        for cmd in (b"put ", b"cd ", b"mkdir ", b"del ", b"size ", b"rmdir ", b"ls ", b"rename x "):
            yield scenario(LOGIN + (xfer("ls", main=550) if cmd == b"ls " else [R(b"550 no"), R(b"550 no")]) + [R(b"200 noop"), R(b"221 bye")], files, OPEN + [cmd + name, b"noop", b"exit"])
        yield scenario([], files, [b"open " + name + b" 21", b"open 127.0.0.1 " + name, b"pwd", b"exit"])
    # port arguments of `open` at every width: digits beyond 16, 32 and 64 bits, signs, blanks, empty, non-digits
    ports = [b"0", b"65535", b"65536", b"99999", b"4294967295", b"4294967296", b"9999999999999999999", b"18446744073709551615",
             b"18446744073709551616", b"99999999999999999999999999", b"1" + b"0" * 40, b"-1", b"+21", b"21x", b"x21", b"0x15", b"2 1", b"\"\"", b"\" 21\"", b"00000000000000000000000021"]
    for i in range(0, len(ports), 4):
        yield scenario([], files, [b"open 127.0.0.1 " + q for q in ports[i:i + 4]] + [b"help", b"pwd", b"exit"])
    # put: missing file, directory, existing file; refused
    for loc in (b"data.bin", b"keep.txt", b"missing.bin", b"sub", LONG):
        for main in (150, 553):
            groups = LOGIN + xfer("put", main=main) + [R(b"200 noop"), R(b"221 bye")]
            yield scenario(groups, files, OPEN + [b"put " + loc, b"noop", b"exit"])
            yield scenario(groups, files, OPEN + [b"put " + loc + b" remote name", b"noop", b"exit"])
    # active mode: transfers with the peer connecting to the advertised port; a server that accepts the transfer command
    # but has nothing scripted for the data connection (the harness's implicit data action), or never sends the completion reply
    for v, kind in ((b"ls", "ls"), (b"get remote.bin fresh.bin", "get"), (b"put data.bin", "put")):
        for setup in (R(b"200 port ok"), R(b"500 no eprt") , R(b"257 odd but positive")):
            for tail in (xfer(kind, setup=setup)[1:], [R(b"150 go") + "," + R(b"226 done")], [R(b"213 single positive reply")], [R(b"150 go")], [R(b"550 no")]):
                groups = LOGIN + [setup] + tail + [R(b"200 noop"), R(b"221 bye")]
                yield scenario(groups, files, OPEN + [b"active", v, b"noop", b"exit"])
                yield scenario(groups, files, OPEN + [b"passive", v, b"noop", b"exit"])
    # server misbehaviour: garbage, close at any point of the dialogue, 421, end of input without exit
    dialogue = LOGIN + [R(b"257 \"/\"")] + xfer("ls", payload=b"f1\r\nf2\r\n") + [R(b"200 noop"), R(b"221 bye")]
    script = OPEN + [b"pwd", b"ls", b"noop", b"exit"]
    for cut in range(0, len(dialogue) + 1):
        yield scenario(dialogue[:cut] + ["X"], files, script)
        yield scenario(dialogue[:cut] + ["r" + b"garbage without code\r\n".hex()], files, script)
        yield scenario(dialogue[:cut] + [R(b"421 closing")], files, script + [b"open 127.0.0.1 $PORT", b"u", b"p", b"noop"])
    for k in range(0, len(script)):
        yield scenario(dialogue, files, script[:k])                     # end of input at every point
    ctx["scopes"].append("get/put on existing, missing, directory, over-long (300, 5000) and path-like local names x accepted/refused; server close / garbage / 421 at every point of a dialogue; end of input at every point")
    # `exit` ends the program whatever happens to QUIT (answered, refused, garbage, connection closed, 421), and while
    # disconnected: the lines after it are never executed
    after = [b"open 127.0.0.1 $PORT", b"user", b"secret", b"del keep.txt", b"noop", b"exit"]
    for quit_group in (R(b"221 bye"), R(b"500 no"), "X", "r" + b"garbage without code\r\n".hex(), R(b"421 closing"), "r" + b"221-half".hex() + ",X"):
        yield scenario(LOGIN + [quit_group] + LOGIN + [R(b"250 deleted"), R(b"200 noop"), R(b"221 bye")], files, OPEN + [b"exit"] + after)
        yield scenario(LOGIN + [quit_group] + LOGIN + [R(b"250 deleted"), R(b"200 noop"), R(b"221 bye")], files, OPEN + [b"EXIT now please"] + after)
    yield scenario(LOGIN + [R(b"250 deleted"), R(b"200 noop"), R(b"221 bye")], files, [b"exit"] + after)
    # a get that is refused because the local file exists, followed - commands later - by a library error in another command:
    # the file that get refused to touch is still there
    for later in ([b"pwd"], [b"noop", b"ls"], [b"cd pub", b"size remote.bin"], [b"close", b"open 127.0.0.1 1"]):
        for fail in ("X", "r" + b"garbage without code\r\n".hex()):
            groups = LOGIN + [R(b"200 ok")] * (len(later) - 1) + [fail] + LOGIN + [R(b"200 noop"), R(b"221 bye")]
            yield scenario(groups, files, OPEN + [b"get keep.txt", b"get remote.bin data.bin"] + later + [b"open 127.0.0.1 $PORT", b"user", b"secret", b"noop", b"exit"])
    # a library error must drop the connection so that a following open starts clean (leftover reply in the old session)
    yield scenario([R(b"220 one"), R(b"331 pw"), R(b"230 in"), R(b"200 type"), "r" + b"abc\r\n".hex() + "," + R(b"555 LEFTOVER"), R(b"220 two"), R(b"331 pw"), R(b"230 in"), R(b"200 type"), R(b"200 noop")],
                   files, OPEN + [b"noop"] + OPEN + [b"noop", b"exit"])
    n = 60 if tier == "quick" else 5000
    for _ in range(n):
        lines = []
        connected = False
        groups = []
        for _ in range(rng.range(1, 10)):
            v = rng.choice(VERBS)
            if v == "exit" and rng.chance(2, 3):
                continue
            if v == "open":
                lines += OPEN if rng.chance(3, 4) else [rng.choice([b"open", b"open 127.0.0.1", b"open 127.0.0.1 abc", b"open 127.0.0.1 $PORT extra", b"open nosuchhost.invalid 21"]), b"x", b"y"]
                groups += LOGIN
                continue
            nargs = rng.below(3)
            args = [rng.choice([b"keep.txt", b"new.txt", b"\"a b\"", b"sub", b"x/y", b".", b"sub/keep.txt", LONG[:rng.range(250, 300)], b"\"q\\\"uote\"", b"data.bin"]) for _ in range(nargs)]
            v2 = "".join(c.upper() if rng.chance(1, 4) else c for c in v)
            lines.append((v2 + " " + b" ".join(args).decode("latin-1")).strip().encode("latin-1"))
            if v in ("get", "ls"):
                groups += xfer("get" if v == "get" else "ls", main=rng.choice([150, 150, 550]))
            elif v == "put":
                groups += xfer("put", main=rng.choice([150, 553]))
            elif v in NET:
                groups.append(rnd_reply(rng, rng.choice([200, 250, 257, 213, 350, 421, 500, 550])))
                if v == "rename":
                    groups.append(rnd_reply(rng, 250))
        if rng.chance(1, 2):
            lines.append(b"exit"); groups.append(R(b"221 bye"))
        yield scenario(groups, files, lines)

PROP = {
    "id": "C20",
    "stages": [{"name": "app", "target": "h_app", "gen": gen, "shard": 8, "aux_targets": {"VERIF_CMDLINE": "cmdline"}}],
    "trivial_tags": ["offline"],
    "rule": "the real cmdline binary (built from the tree) run as a subprocess with piped stdin in a fresh directory holding known files, "
            "against the scripted server; stdout, exit status, directory contents before/after and the commands the server received are "
            "compared with the Lean model of the application; non-trivial = the scenario opens a connection",
    "assumptions": ["real file-system behaviour is observed, not modelled beyond exists / create / remove of plain names",
                    "nothing listens on port 21 of the sandbox (an `open` without the scripted port fails to connect)"],
}
