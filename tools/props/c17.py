from props.client_props import gen_c17
PROP = {"id": "C17", "stages": [{"name": "client", "target": "h_client", "gen": gen_c17, "shard": 12}], "trivial_tags": [], "rule": "", "assumptions": []}
