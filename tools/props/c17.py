from props.client_props import gen_c17
from props.e2egen import *
from props.e2egen import line as eline
import props.c13 as C13, props.c07 as C07, props.c11 as C11

def gen_e2e(ctx):
    """real control sockets (plain and TLS): the descriptor count after every call, returned or thrown, equals the
    connected flag; control connection dropped / reset by the server at various points, then the usual clean-ups"""
    rng = ctx["rng"]
    noop = "noop@" + R(b"200 ok")
    for ver in (13, 12):
        for tls in (1, 0):
            c = cfg_str(ver=ver, tls=tls, prop="C17", verify="none")
            co = connect(tls=bool(tls))
            login_cut = "connect:-:-:%s:%s@%s%s" % (H(b"user"), H(b"pass"), R(b"220 hi") + ("/" + R(b"234 auth") + ",T" if tls else ""), "/" + R(b"331 pw") + "/")
            for drop in ("X", "R"):
                # the server answers and drops / resets the connection; the client finds out later
                yield eline(c, [co, "noop@" + R(b"200 ok") + "," + drop, "isconn", "disc:0", "isconn", co, noop, "disc:1@" + R(b"221 bye")])
                yield eline(c, [co, "noop@" + drop, "isconn", "disc:0", "isconn", co, noop, "disc:0"])
                yield eline(c, [co, get("p", 1), "noop@" + drop, co, get("p", 1), "disc:0"])
                yield eline(c, [co, "noop@" + R(b"421 closing") + "," + drop, "isconn", "disc:0", co, noop])
                yield eline(c, [login_cut + drop, "isconn", "disc:0", co, noop])     # dropped in the middle of login
            # connect() while connected, to a host that cannot be resolved / that refuses: the old socket is gone, nothing is held
            bad = H(b"y" * 80 + b".invalid")
            yield eline(c, [co, "connect:%s:-" % bad, "isconn", "disc:0", "isconn", co, noop, "disc:1@" + R(b"221 bye")])
            yield eline(c, [co, get("p", 1), "connect:%s:-" % bad, "disc:1", "isconn", "connect:%s:-" % bad, "isconn", co, noop])
            # a dropped (not reset) connection accepts one more write: the call that makes it fails reading the reply
            yield eline(c, [co, "noop@" + R(b"200 ok") + ",X", "disc:1", "disc:0", co, noop, "disc:1@" + R(b"221 bye")])
            yield eline(c, [co, "noop@" + R(b"200 ok") + ",X", "noop", "isconn", "disc:0", co, noop])
            yield eline(c, [co, "noop@X", "disc:1", "disc:0", "isconn"])
    # cancelled transfers on TLS-protected (and plain) data connections, all four methods: the callback reports cancellation after
    # the first block; ABOR is answered 426 + 226; the data socket (and the listening socket in active mode) must be gone afterwards
    abor = ",".join([R(b"426 aborted"), R(b"226 abor ok")])
    for ver in (13, 12):
        for tls in (1, 0):
            for mode in "pa":
                for rfc in (0, 1):
                    c = cfg_str(mode=mode, rfc=rfc, ver=ver, tls=tls, prop="C17", verify="none")
                    co = connect(tls=bool(tls))
                    g = "get:%s:ok:p01@%s/%s/%s" % (H(b"SECRETPATH03.bin"), setup(mode, rfc), ",".join([R(b"150 go"), "Dsend:g7.8192::c"]), abor)
                    p = "put:STOR:%s:g8.20000:p01@%s/%s/%s" % (H(b"SECRETPATH04.bin"), setup(mode, rfc), ",".join([R(b"150 go"), "Drecv:-:c"]), abor)
                    yield eline(c, [co, g, noop, p, noop, g, get(mode, rfc), "disc:1@" + R(b"221 bye")])
    # transfers that run to their end but whose data connection cannot be closed properly: the server resets it (or closes it
    # without answering the TLS close-notify) after reading the upload / sending the download; the call throws - and must
    # still have released the data socket and, in active mode, the listening socket
    for ver in (13, 12):
        for tls in (1, 0):
            for mode in "pa":
                for rfc in (0, 1):
                    c = cfg_str(mode=mode, rfc=rfc, ver=ver, tls=tls, prop="C17", verify="none")
                    co = connect(tls=bool(tls))
                    up = "put:STOR:%s:g9.5000@%s/%s" % (H(b"SECRETPATH04.bin"), setup(mode, rfc), ",".join([R(b"150 go"), R(b"226 done"), "Drecv:-:r"]))
                    yield eline(c, [co, put(mode, rfc), up, "isconn", "disc:0", co, get(mode, rfc), "disc:1@" + R(b"221 bye")])
                    yield eline(c, [co, get(mode, rfc, payload="g4.3000", end="r"), "isconn", "disc:0", co, put(mode, rfc), "disc:0"])
    for gen, prop in ((C13.gen_e2e, "C13"), (C07.gen_e2e, "C07"), (C11.gen, "C11")):
        for l in gen(dict(ctx, scopes=[])):
            yield l.replace("prop=%s" % prop, "prop=C17")
    ctx["scopes"].append("e2e: control connection closed / reset by the server after a reply, instead of a reply, after 421, during login x TLS 1.2 / 1.3 / plain, each followed by graceful and non-graceful disconnect and a reconnect; cancelled downloads / uploads (ABOR) on TLS and plain data connections x four methods; plus the C13 / C07 / C11 e2e histories judged by the descriptor rule")

PROP = {"id": "C17", "stages": [{"name": "client", "target": "h_client", "gen": gen_c17, "shard": 12},
                                {"name": "e2e", "target": "h_e2e", "gen": gen_e2e, "shard": 6}], "trivial_tags": [],
        "rule": 'long random histories (10-40 calls, thorough 40-200) mixing successful, refused, cancelled and failing transfers (peer reset, failing sink/source, unreachable passive endpoint) in all four methods with mode switches and reconnects; client descriptor table from libc interposition after every call and after destruction. e2e stage: real control sockets, plain and TLS, server drops / resets; descriptors held by the client after every call = 1 if it reports connected, else 0.',
        "assumptions": ["in-memory control transport (a socket_base subclass) stands in for the TCP control socket in the client stage; data connections are real loopback TCP", "oracle values (read sizes, kernel-chosen ports, connect results) are taken from the implementation run"]}
