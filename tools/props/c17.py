from props.client_props import gen_c17
PROP = {"id": "C17", "stages": [{"name": "client", "target": "h_client", "gen": gen_c17, "shard": 12}], "trivial_tags": [],
        "rule": 'long random histories (10-40 calls, thorough 40-200) mixing successful, refused, cancelled and failing transfers (peer reset, failing sink/source, unreachable passive endpoint) in all four methods with mode switches and reconnects; client descriptor table from libc interposition after every call and after destruction.',
        "assumptions": ["in-memory control transport (a socket_base subclass) stands in for the TCP control socket; data connections are real loopback TCP", "oracle values (read sizes, kernel-chosen ports, connect results) are taken from the implementation run"]}
