"""C02 - session lockstep: each call returns exactly the replies to its own commands."""
from props.cligen import *

def gen(ctx):
    rng = ctx["rng"]; tier = ctx["tier"]
    n = 400 if tier == "quick" else 20000
    for i in range(n):
        cfg0, ops = random_history(rng, "C02")
        yield line(cfg0, ops)

PROP = {
    "id": "C02",
    "stages": [{"name": "client", "target": "h_client", "gen": gen, "shard": 20}],
    "trivial_tags": ["short"],
    "rule": "random histories of API calls against the scripted RFC-conformant server (in-memory control channel, loopback data peer)",
    "assumptions": [],
}
