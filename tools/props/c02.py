from props.client_props import gen_c02
PROP = {"id": "C02", "stages": [{"name": "client", "target": "h_client", "gen": gen_c02, "shard": 12}], "trivial_tags": [], "rule": "", "assumptions": []}
