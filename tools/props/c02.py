from props.client_props import gen_c02

from props.e2egen import *
from props.e2egen import line as eline

def gen_e2e(ctx):
    """lockstep over real sockets, with and without TLS"""
    rng = ctx["rng"]
    noop = "noop@" + R(b"200 ok")
    for ver in (13, 12):
        for tls in (1, 0):
            for mode in "pa":
                for rfc in (0, 1):
                    c = cfg_str(mode=mode, rfc=rfc, ver=ver, tls=tls, prop="C02", resume=rng.below(2))
                    ops = [connect(tls=bool(tls))]
                    for _ in range(rng.range(3, 8)):
                        r = rng.below(6)
                        ops.append([noop, get(mode, rfc), put(mode, rfc), lst(mode, rfc), get(mode, rfc, main=550), "pwd@" + R(b"257 \"/\"")][r])
                    ops.append("disc:1@" + R(b"221 bye"))
                    yield eline(c, ops)

def gen_e2e_reactive(ctx):
    """cancelled uploads against a server that answers ABOR the way RFC 959 servers do (flag A): 426 + 226 while the upload is
    still running, a single 226 if it had already seen the end of the data connection - the client must not end the data
    connection before ABOR's replies are read"""
    rng = ctx["rng"]
    noop = "noop@" + R(b"200 ok")
    abor = ",".join([R(b"426 aborted"), R(b"226 abor ok")])
    for ver in (13, 12):
        for tls in (1, 0):
            for mode in "pa":
                for rfc in (0, 1):
                    c = cfg_str(mode=mode, rfc=rfc, ver=ver, tls=tls, prop="C02", verify="none")
                    for verb in ("STOR", "APPE"):
                        p = "put:%s:%s:g8.30000:p01@%s/%s/%s" % (verb, H(b"SECRETPATH04.bin"), setup(mode, rfc), ",".join([R(b"150 go"), "Drecv:-:c", "A"]), abor)
                        yield eline(c, [connect(tls=bool(tls)), p, noop, "pwd@" + R(b"257 \"/\""), "disc:1@" + R(b"221 bye")])
    ctx["scopes"].append("e2e: cancelled uploads (STOR, APPE) against a server whose answer to ABOR depends on whether the data connection has already ended x TLS 1.2 / 1.3 / plain x four methods")

PROP = {"id": "C02", "stages": [{"name": "client", "target": "h_client", "gen": gen_c02, "shard": 12},
                   {"name": "e2e", "target": "h_e2e", "gen": gen_e2e, "shard": 4},
                   {"name": "e2e-abor", "target": "h_e2e", "gen": gen_e2e_reactive, "shard": 4}], "trivial_tags": ['short'],
        "rule": 'random and directed histories of API calls (all calls, four data-connection methods, cancellation at several polls) against the scripted RFC-conformant server: in-memory control channel whose reply bytes are cut as scripted, real loopback data connections; the returned replies are compared with the replies the server generated during the call and the unread control bytes must be empty (or a lone LF). Non-trivial = a history with more than two calls; distinct = distinct scenario lines.',
        "assumptions": ["in-memory control transport (a socket_base subclass) stands in for the TCP control socket; data connections are real loopback TCP", "oracle values (read sizes, kernel-chosen ports, connect results) are taken from the implementation run"]}
