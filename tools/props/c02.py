from props.client_props import gen_c02

from props.e2egen import *
from props.e2egen import line as eline

def gen_e2e(ctx):
    """lockstep over real sockets, with and without TLS"""
    rng = ctx["rng"]
    noop = "noop@" + R(b"200 ok")
    for ver in (13, 12):
        for tls in (1, 0):
            for mode in "pa":
                for rfc in (0, 1):
                    c = cfg_str(mode=mode, rfc=rfc, ver=ver, tls=tls, prop="C02", resume=rng.below(2))
                    ops = [connect(tls=bool(tls))]
                    for _ in range(rng.range(3, 8)):
                        r = rng.below(6)
                        ops.append([noop, get(mode, rfc), put(mode, rfc), lst(mode, rfc), get(mode, rfc, main=550), "pwd@" + R(b"257 \"/\"")][r])
                    ops.append("disc:1@" + R(b"221 bye"))
                    yield eline(c, ops)

PROP = {"id": "C02", "stages": [{"name": "client", "target": "h_client", "gen": gen_c02, "shard": 12},
                   {"name": "e2e", "target": "h_e2e", "gen": gen_e2e, "shard": 4}], "trivial_tags": ['short'],
        "rule": 'random and directed histories of API calls (all calls, four data-connection methods, cancellation at several polls) against the scripted RFC-conformant server: in-memory control channel whose reply bytes are cut as scripted, real loopback data connections; the returned replies are compared with the replies the server generated during the call and the unread control bytes must be empty (or a lone LF). Non-trivial = a history with more than two calls; distinct = distinct scenario lines.',
        "assumptions": ["in-memory control transport (a socket_base subclass) stands in for the TCP control socket; data connections are real loopback TCP", "oracle values (read sizes, kernel-chosen ports, connect results) are taken from the implementation run"]}
