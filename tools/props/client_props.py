"""Client-level stages (h_client) of the properties C02-C04, C06, C07, C09, C10, C12-C14, C17 and the end-to-end part of C05."""
from props.cligen import *

# thorough sizes are bounded by the machine: every transfer is a real loopback TCP connection whose closed end stays in
# TIME_WAIT for 60 s; more than ~25000 connections per minute exhaust the ephemeral port range and bind()/connect() start to fail
def n_of(ctx, quick, thorough):
    return quick if ctx["tier"] == "quick" else thorough

def start(rng, cfg, login=True):
    ops = [op_connect(rng, cfg)]
    if login:
        ops.append(op_login(rng, cfg))
    return ops

# ---------------------------------------------------------------- C02
def gen_c02(ctx):
    rng = ctx["rng"]
    # directed: ABOR while the server is still sending (in scope) for all four methods
    for mode in "pa":
        for rfc in (0, 1):
            for cancel in ("1", "01", "001"):
                cfg = Cfg(rng, "C02", mode=mode, rfc=rfc, ttype="I", ip=4); c0 = str(cfg)
                yield line(c0, start(rng, cfg) + [op_get(rng, cfg, cancel=cancel), op_simple(rng, cfg, "noop", 200)])
                cfg = Cfg(rng, "C02", mode=mode, rfc=rfc, ttype="I", ip=4); c0 = str(cfg)
                yield line(c0, start(rng, cfg) + [op_put(rng, cfg, cancel=cancel), op_simple(rng, cfg, "noop", 200)])
    # every RFC 959 completion reply of an accepted (not cancelled) transfer or listing, positive and negative, then another call
    for mode in "pa":
        for rfc in (0, 1):
            for comp in (226, 250, 426, 425, 451, 551, 552):
                cfg = Cfg(rng, "C02", mode=mode, rfc=rfc, ttype="I", ip=4); c0 = str(cfg)
                yield line(c0, start(rng, cfg) + [op_get(rng, cfg, completion=comp, size=100), op_simple(rng, cfg, "noop", 200),
                                                  op_put(rng, cfg, completion=comp, size=100), op_simple(rng, cfg, "noop", 200),
                                                  op_list(rng, cfg, completion=comp), op_simple(rng, cfg, "noop", 200)])
    # an upload the server ends early: it stops reading, closes (or resets) the data connection and sends its completion
    # reply; the client's next write fails.  Whatever the call does then - it throws today - a call that RETURNS must have
    # read exactly the replies to the commands it sent (a scripted answer to an ABOR the client has no reason to send waits)
    for mode in "pa":
        for rfc in (0, 1):
            for comp in (552, 452, 451, 426, 226):
                for how in "rc":
                    for cb in ("-", "p00000000000000000000000000000000000000000000"):
                        cfg = Cfg(rng, "C02", mode=mode, rfc=rfc, ttype="I", ip=4); c0 = str(cfg)
                        g = [setup_groups(rng, cfg, None), ",".join([rnd_reply(rng, 150), rnd_reply(rng, comp), "Drecv:1000:%s" % how]), R(b"226 abort ok")]
                        yield line(c0, start(rng, cfg) + ["put:STOR:%s:g9.300000:-:ok:%s@" % (H(b"f"), cb) + "/".join(g)])
    ctx["scopes"].append("uploads of 300000 bytes ended by the server after 1000 bytes (close / reset) with completion replies 552/452/451/426/226 already sent x four methods x with / without a callback")
    # greeting 120 + 220 with and without credentials (repaired defect F2)
    for user in (None, (b"u", b"p")):
        cfg = Cfg(rng, "C02"); c0 = str(cfg)
        yield line(c0, [op_connect(rng, cfg, user=user, greeting=[R(b"120 wait"), R(b"220 hi")]), op_simple(rng, cfg, "noop", 200)])
    for _ in range(n_of(ctx, 500, 5000)):
        cfg0, ops = random_history(rng, "C02")
        yield line(cfg0, ops)

def corpus_known_c02(rng):
    """the two recorded findings (see known_findings.json)"""
    out = []
    for mode in "pa":
        cfg = Cfg(rng, "C02", mode=mode, rfc=1, ttype="I", ip=4); c0 = str(cfg)
        # the server had already completed the transfer (150 + data + 226) when ABOR arrives: it answers ABOR with one 226
        g = [setup_groups(rng, cfg), ",".join([R(b"150 go"), R(b"226 transfer complete"), "Dsend:h68656c6c6f::c"]), R(b"226 abort ok")]
        out.append(line(c0, start(rng, cfg) + ["get:%s:ok:p01@%s" % (H(b"f"), "/".join(g)), op_simple(rng, cfg, "noop", 200)]))
    cfg = Cfg(rng, "C02"); c0 = str(cfg)
    out.append(line(c0, start(rng, cfg) + ["logout@" + ",".join([R(b"120 wait"), R(b"220 ready")]), op_simple(rng, cfg, "noop", 200)]))
    return out

# ---------------------------------------------------------------- C03 / C05 download
SIZES = [0, 1, 2, 100, 8191, 8192, 8193, 16383, 16384, 16385, 24576, 65536, 200000]

def gen_c03(ctx):
    rng = ctx["rng"]
    for mode in "pa":
        for rfc in (0, 1):
            for ip in ((4, 6) if rfc else (4,)):
                for size in SIZES:
                    cfg = Cfg(rng, "C03", mode=mode, rfc=rfc, ttype="I", ip=ip); c0 = str(cfg)
                    comp = rng.choice([226, 250])
                    yield line(c0, start(rng, cfg, login=False) + [op_get(rng, cfg, size=size, completion=comp)])
    ctx["scopes"].append("binary downloads: payload sizes %s x passive/active x EPSV-EPRT/PASV-PORT x IPv4/IPv6" % SIZES)
    # a refused transfer whose server had already opened its data connection (it connects / is connected, then answers
    # 4xx/5xx), followed by accepted transfers on the same control connection: each of those delivers its own bytes
    for mode in "pa":
        for rfc in (0, 1):
            for act in ("Dnone", "Dsend:g5.3000::c"):
                for kind in ("get", "list"):
                    cfg = Cfg(rng, "C03", mode=mode, rfc=rfc, ttype="I", ip=4); c0 = str(cfg)
                    refused = "/".join([setup_groups(rng, cfg, None), ",".join([rnd_reply(rng, rng.choice([550, 450, 553])), act])])
                    first = ("get:%s:ok:-@" % H(b"nope") if kind == "get" else "list:-:0@") + refused
                    yield line(c0, start(rng, cfg, login=False) + [first, op_get(rng, cfg, size=20000), op_list(rng, cfg), op_get(rng, cfg, size=100)])
    ctx["scopes"].append("a refused download / listing whose server had already opened the data connection, followed by two downloads and a listing x four methods")
    # the server drops the data connection abortively (RST) while bytes it wrote are still undelivered, and still says 226: the call
    # must not return a positive result with a sink that holds only a prefix (after the failing call: disconnect, new session)
    for mode in "pa":
        for rfc in (0, 1):
            for size in (100, 70000, 300000, 1500000):
                cfg = Cfg(rng, "C03", mode=mode, rfc=rfc, ttype="I", ip=4); c0 = str(cfg)
                yield line(c0, start(rng, cfg, login=False) + [op_get(rng, cfg, size=size, reset=True), "disc:0"] + start(rng, cfg, login=False) + [op_get(rng, cfg, size=100)])
    ctx["scopes"].append("binary downloads whose data connection is reset by the server (undelivered bytes discarded) x 4 sizes x four methods")
    # preliminary replies that announce a size, vsftpd / proftpd style - smaller than, equal to and larger than what the server then
    # writes (a file growing during the transfer, a /proc-style file announced as 0 bytes): the text of a reply never bounds the data
    for mode in "pa":
        for rfc in (0, 1):
            for size, announced in ((150, 100), (57, 0), (100, 100), (100, 150), (20000, 8192), (8192, 8191), (9000, 18446744073709551616)):
                cfg = Cfg(rng, "C03", mode=mode, rfc=rfc, ttype="I", ip=4); c0 = str(cfg)
                spec, _ = payload(rng, size)
                for text in (b"150 Opening BINARY mode data connection for f.bin (%d bytes)" % announced, b"125 Data connection already open; transfer starting (%d bytes)." % announced, b"150 (%d bytes)" % announced):
                    g = [setup_groups(rng, cfg), ",".join([R(text), rnd_reply(rng, 226), "Dsend:%s::c" % spec])]
                    yield line(c0, start(rng, cfg, login=False) + ["get:%s:ok:-@" % H(b"f.bin") + "/".join(g), op_simple(rng, cfg, "noop", 200)])
    ctx["scopes"].append("binary downloads whose preliminary reply announces a size different from / equal to the bytes then written (7 pairs x 3 reply texts x four methods)")
    for _ in range(n_of(ctx, 300, 4000)):
        cfg = Cfg(rng, "C03", ttype="I"); c0 = str(cfg)
        ops = start(rng, cfg, login=rng.chance(1, 2))
        for _ in range(rng.range(1, 3)):
            if rng.chance(2, 3): ops.append(op_get(rng, cfg))
            else: ops.append(op_list(rng, cfg))
        yield line(c0, ops)

def gen_c05_client(ctx):
    rng = ctx["rng"]
    for _ in range(n_of(ctx, 300, 3000)):
        cfg = Cfg(rng, "C05", ttype="A"); c0 = str(cfg)
        ops = start(rng, cfg, login=False)
        r = rng.below(3)
        size = rng.choice([0, 1, 2, 3, 10, 100, 8191, 8192, 8193, 16385])
        if r == 0: ops.append(op_get(rng, cfg, size=size))
        elif r == 1: ops.append(op_put(rng, cfg, size=size))
        else: ops.append(op_list(rng, cfg))
        yield line(c0, ops)
    # downloads and listings whose network segments end between the CR and the LF of a pair (the peer pauses between segments),
    # with and without a transfer callback, all four methods
    text = b"alpha\r\nbeta\rgamma\r\n\r\ndelta\r"
    for mode in "pa":
        for rfc in (0, 1):
            cfg = Cfg(rng, "C05", mode=mode, rfc=rfc, ttype="A", ip=4); c0 = str(cfg)
            for sizes in ("6.21", "1", "6.1.12.1.1.1", "19.1.1.1", "27.1"):
                for cb in ("-", "p0"):
                    g = [setup_groups(rng, cfg), ",".join([rnd_reply(rng, 150), rnd_reply(rng, 226), "Dsend:h%s:%s:cp" % (text.hex(), sizes)])]
                    yield line(c0, start(rng, cfg, login=False) + ["get:%s:ok:%s@" % (H(b"t.txt"), cb) + "/".join(g)])
                g = [setup_groups(rng, cfg), ",".join([rnd_reply(rng, 150), rnd_reply(rng, 226), "Dsend:h%s:%s:cp" % (text.hex(), sizes)])]
                yield line(c0, start(rng, cfg, login=False) + ["list:-:0@" + "/".join(g)])
    ctx["scopes"].append("ASCII downloads / listings whose segments are cut between CR and LF (paused peer), with and without a transfer callback x four methods")

    # several ASCII transfers over ONE client: what a transfer transmits / delivers depends on its own bytes only - not on how
    # the previous one ended (texts that end in CR, in CR LF, in LF; texts that begin with LF, with CR)
    ends = [b"one\r", b"two\r\n", b"three\n", b"\r", b"four"]
    begins = [b"\nfirst", b"\n\n", b"\rx", b"plain\r\n", b"\n"]
    for mode in "pa":
        for rfc in (0, 1):
            cfg = Cfg(rng, "C05", mode=mode, rfc=rfc, ttype="A", ip=4); c0 = str(cfg)
            for kind in ("put", "get", "mixed"):
                ops = start(rng, cfg, login=False)
                for i, (e, b) in enumerate(zip(ends, begins)):
                    for text in (e, b):
                        up = kind == "put" or (kind == "mixed" and (i % 2 == 0))
                        if up:
                            g = [setup_groups(rng, cfg), ",".join([rnd_reply(rng, 150), rnd_reply(rng, 226), "Drecv:-:c"])]
                            ops.append("put:%s:%s:h%s:-:ok:-@" % (rng.choice(["STOR", "APPE"]), H(b"t.txt"), text.hex()) + "/".join(g))
                        else:
                            g = [setup_groups(rng, cfg), ",".join([rnd_reply(rng, 150), rnd_reply(rng, 226), "Dsend:h%s::c" % text.hex()])]
                            ops.append("get:%s:ok:-@" % H(b"t.txt") + "/".join(g))
                yield line(c0, ops)
    ctx["scopes"].append("ten consecutive ASCII uploads / downloads / both over one client, texts ending in CR / CR LF / LF and beginning with LF / CR x four methods")

# ---------------------------------------------------------------- C04 upload
def gen_c04(ctx):
    rng = ctx["rng"]
    for mode in "pa":
        for rfc in (0, 1):
            for ip in ((4, 6) if rfc else (4,)):
                for size in SIZES:
                    for verb in ("STOR", "STOU", "APPE"):
                        if verb != "STOR" and size not in (0, 8192, 16385):
                            continue
                        cfg = Cfg(rng, "C04", mode=mode, rfc=rfc, ttype="I", ip=ip); c0 = str(cfg)
                        yield line(c0, start(rng, cfg, login=False) + [op_put(rng, cfg, verb=verb, size=size)])
    ctx["scopes"].append("binary uploads: payload sizes %s x STOR (all sizes) / STOU, APPE (3 sizes) x four methods x IPv4/IPv6" % SIZES)
    # a source whose end is not sticky: whatever it would yield after its first empty read must not be asked for, let alone sent
    for mode in "pa":
        for rfc in (0, 1):
            for size in (0, 1, 100, 3000, 8191, 8192, 8193, 10000, 16384, 20000):
                for chop in ("-", "1", "7", "1000", "4096", "8191.1", "8192", "3000.100.50"):
                    if chop in ("1", "7") and size > 3000:
                        continue
                    cfg = Cfg(rng, "C04", mode=mode, rfc=rfc, ttype="I", ip=4); c0 = str(cfg)
                    yield line(c0, start(rng, cfg, login=False) + [op_put(rng, cfg, size=size, chop=chop, poison=True)])
    ctx["scopes"].append("binary uploads from a source whose end is not sticky (it yields foreign bytes when asked again after its first empty read): 10 sizes x 8 chop patterns x four methods")
    # a send() on the data connection that makes partial progress and is then interrupted by a signal (EINTR): whatever the
    # call does then - fail loudly after a correct prefix, or go on - the peer must never see a byte twice
    for mode in "pa":
        for rfc in (0, 1):
            for size in (5000, 8192, 20000, 70000):
                for k in (0, 1, 2, 5):
                    cfg = Cfg(rng, "C04", mode=mode, rfc=rfc, ttype="I", ip=4); c0 = str(cfg)
                    yield line(c0, start(rng, cfg, login=False) + ["faults:-:-:%d" % k, op_put(rng, cfg, size=size, chop="-"), "disc:0"] + start(rng, cfg, login=False) + [op_put(rng, cfg, size=100)])
    ctx["scopes"].append("binary uploads whose k-th send() (k = 0, 1, 2, 5) transmits half of its bytes and is then interrupted (EINTR) x 4 sizes x four methods")
    for _ in range(n_of(ctx, 300, 4000)):
        cfg = Cfg(rng, "C04", ttype="I"); c0 = str(cfg)
        ops = start(rng, cfg, login=rng.chance(1, 2))
        for _ in range(rng.range(1, 3)):
            ops.append(op_put(rng, cfg, poison=rng.chance(1, 2)))
        yield line(c0, ops)

# ---------------------------------------------------------------- C06 client stage
BAD_PASSIVE = [b"229 ok (|||1|)", b"229 ok (||6446|)", b"229 nothing", b"229 (|||65536|)", b"229 (abc6446x)", b"229 ok (|||6446|", b"229 (!!!70000!)",
               b"227 ok (127,0,0,1,0,1)", b"227 (10,1,2,3,4,5)", b"227 (127,0,0,1,256,0)", b"227 (127,0,0,1,255,256)", b"227 (999,0,0,1,4,5)",
               b"227 (1,2,3,4,5,6,)", b"227 (1,2,3,4,5)", b"227 nothing", b"227 (::ffff:1,2,3,4,4,5)", b"227 =127,0,0,1,4,5"]

def gen_c06_client(ctx):
    rng = ctx["rng"]
    for t in BAD_PASSIVE:
        for kind in ("get", "put", "list"):
            rfc = 1 if t.startswith(b"229") else 0
            cfg = Cfg(rng, "C06", mode="p", rfc=rfc, ttype="I", ip=4); c0 = str(cfg)
            if kind == "get": o = "get:%s:ok:-@%s/%s" % (H(b"f"), R(t), R(b"550 no"))
            elif kind == "put": o = "put:STOR:%s:h6162:-:ok:-@%s/%s" % (H(b"f"), R(t), R(b"550 no"))
            else: o = "list:-:0@%s/%s" % (R(t), R(b"550 no"))
            yield line(c0, start(rng, cfg, login=False) + [o, op_simple(rng, cfg, "noop", 200)])
    for _ in range(n_of(ctx, 400, 4000)):
        cfg = Cfg(rng, "C06"); c0 = str(cfg)
        ops = start(rng, cfg, login=False)
        for _ in range(rng.range(1, 4)):
            r = rng.below(5)
            if r == 0: ops.append(op_get(rng, cfg, size=rng.choice([0, 10, 9000])))
            elif r == 1: ops.append(op_put(rng, cfg, size=rng.choice([0, 10, 9000])))
            elif r == 2: ops.append(op_list(rng, cfg))
            elif r == 3: ops.append(op_get(rng, cfg, setup_code=rng.choice(NEG)))
            else:
                m = rng.choice(["a", "p"]); cfg.mode = m; ops.append("setmode:" + m)
        yield line(c0, ops)

# ---------------------------------------------------------------- C07 refusals
def gen_c07(ctx):
    rng = ctx["rng"]
    codes = [425, 426, 450, 451, 452, 500, 501, 502, 503, 530, 550, 552, 553]
    for mode in "pa":
        for rfc in (0, 1):
            for code in codes:
                for step in ("setup", "main"):
                    for kind in ("get", "put", "list"):
                        cfg = Cfg(rng, "C07", mode=mode, rfc=rfc, ip=4); c0 = str(cfg)
                        kw = {"setup_code": code} if step == "setup" else {"main_code": code}
                        o = op_get(rng, cfg, **kw) if kind == "get" else op_put(rng, cfg, **kw) if kind == "put" else op_list(rng, cfg, **kw)
                        follow = rng.choice([op_simple(rng, cfg, "noop", 200), op_get(rng, cfg, size=10), op_list(rng, cfg)])
                        yield line(c0, start(rng, cfg, login=False) + [o, follow])
    ctx["scopes"].append("every negative code of %s x {set-up, main command} x {download, upload, listing} x four methods, each followed by a normal operation" % codes)
    # a refused transfer that was given a callback: never cancelled, cancelled from the start (a flag left over from an earlier
    # cancelled transfer), cancelled at the second poll - the refusal must still end the operation at that step
    for mode in "pa":
        for rfc in (0, 1):
            for step in ("setup", "main"):
                for kind in ("get", "put"):
                    for cancel in ("0", "1", "01"):
                        cfg = Cfg(rng, "C07", mode=mode, rfc=rfc, ip=4); c0 = str(cfg)
                        kw = {"setup_code": rng.choice([425, 500, 550])} if step == "setup" else {"main_code": rng.choice([450, 550, 553])}
                        o = op_get(rng, cfg, cancel=cancel, **kw) if kind == "get" else op_put(rng, cfg, cancel=cancel, **kw)
                        yield line(c0, start(rng, cfg, login=False) + [o, op_simple(rng, cfg, "noop", 200)])
    # an accepted listing, then a refused one on the same client: what the refused call returns is empty
    for mode in "pa":
        for rfc in (0, 1):
            for step in ("setup", "main"):
                cfg = Cfg(rng, "C07", mode=mode, rfc=rfc, ip=4); c0 = str(cfg)
                kw = {"setup_code": rng.choice([425, 500, 550])} if step == "setup" else {"main_code": rng.choice([450, 550, 553])}
                yield line(c0, start(rng, cfg, login=False) + [op_list(rng, cfg, text=b"drwxr-xr-x 2 0 0 4096 Jan 1 pub\r\n-rw-r--r-- 1 0 0 12 Jan 1 f.txt\r\n"), op_list(rng, cfg, **kw),
                                                                 op_simple(rng, cfg, "noop", 200), op_list(rng, cfg, text=b"x\r\n"), op_list(rng, cfg, **kw)])
    ctx["scopes"].append("refused downloads / uploads with a transfer callback (never cancelled / cancelled from the start / at the second poll) x {set-up, main} x four methods")
    for _ in range(n_of(ctx, 200, 3000)):
        cfg = Cfg(rng, "C07"); c0 = str(cfg)
        ops = start(rng, cfg)
        for _ in range(rng.range(2, 6)):
            code = rng.range(400, 599)
            if code == 421: code = 422
            kw = {"setup_code": code} if rng.chance(1, 2) else {"main_code": code}
            r = rng.below(6)
            if r == 0: ops.append(op_get(rng, cfg, **kw))
            elif r == 1: ops.append(op_put(rng, cfg, **kw))
            elif r == 2: ops.append(op_list(rng, cfg, **kw))
            elif r == 3: ops.append(op_get(rng, cfg, size=100))
            elif r == 4: ops.append(op_put(rng, cfg, size=100))
            else: ops.append(op_simple(rng, cfg))
        yield line(c0, ops)

# ---------------------------------------------------------------- C09 client stage
def gen_c09_client(ctx):
    rng = ctx["rng"]
    bad = [b"a\r\nDELE b", b"x\nQUIT", b"x\rQUIT", b"\r\n", b"\n", b"\r", b"a\r\n", b"\r\nNOOP"]
    good = [b"a", b"", b"a b", b"\x00\xff", b" lead", b"trail ", b"DELE x"]
    names = ["cwd", "dele", "mkd", "rmd", "size", "mdtm", "stat", "help", "site"]
    for a in bad + good:
        for nm in names:
            cfg = Cfg(rng, "C09"); c0 = str(cfg)
            yield line(c0, start(rng, cfg, login=False) + ["%s:%s@%s" % (nm, H(a), R(b"200 ok")), op_simple(rng, cfg, "noop", 200)])
        for which in (0, 1):
            cfg = Cfg(rng, "C09"); c0 = str(cfg)
            args = [b"from", b"to"]; args[which] = a
            yield line(c0, start(rng, cfg, login=False) + ["rename:%s:%s@%s/%s" % (H(args[0]), H(args[1]), R(b"350 ok"), R(b"250 ok")), op_simple(rng, cfg, "noop", 200)])
            cfg = Cfg(rng, "C09"); c0 = str(cfg)
            args = [b"user", b"pw"]; args[which] = a
            yield line(c0, start(rng, cfg, login=False) + ["login:%s:%s@%s/%s/%s" % (H(args[0]), H(args[1]), R(b"331 ok"), R(b"230 ok"), R(b"200 ok")), op_simple(rng, cfg, "noop", 200)])
            cfg = Cfg(rng, "C09"); c0 = str(cfg)
            yield line(c0, ["connect:%s:21:%s:%s@%s/%s/%s/%s" % (H(cfg.host()), H(args[0]), H(args[1]), R(b"220 hi"), R(b"331 ok"), R(b"230 ok"), R(b"200 ok"))])
        cfg = Cfg(rng, "C09", mode="p", rfc=1, ip=4); c0 = str(cfg)
        yield line(c0, start(rng, cfg, login=False) + ["get:%s:ok:-@E/%s,%s,Dsend:h61::c" % (H(a), R(b"150 ok"), R(b"226 ok")),
                                                        "put:STOR:%s:h61:-:ok:-@E/%s,%s,Drecv:-:c" % (H(a), R(b"150 ok"), R(b"226 ok")),
                                                        "list:%s:0@E/%s,%s,Dsend:h61::c" % (H(a), R(b"150 ok"), R(b"226 ok"))])
    # a command whose write fails (the server has hung up: 421 closed the connection), then the same client object is used again:
    # the failed line must not travel with the first command of the new session
    for nm in names + ["noop", "pwd"]:
        for relogin in (0, 1):
            cfg = Cfg(rng, "C09"); c0 = str(cfg)
            first = ("%s:%s" % (nm, H(b"victim.txt"))) if nm in names else nm
            again = op_connect(rng, cfg, user=(b"alice", b"secret")) if relogin else op_connect(rng, cfg)
            yield line(c0, start(rng, cfg, login=False) + [op_simple(rng, cfg, "noop", 421), first, "isconn", first, "disc:0", again, op_simple(rng, cfg, "noop", 200), op_disc(rng, cfg, True)])
    ctx["scopes"].append("every text-taking call x injection strings %s and harmless strings; commands whose write fails (connection closed by 421) followed by a new session on the same client" % [b.decode("latin-1") for b in bad])
    for _ in range(n_of(ctx, 300, 4000)):
        cfg = Cfg(rng, "C09"); c0 = str(cfg)
        a = rng.bytes(rng.range(0, 12)) if rng.chance(1, 2) else rng.bytes(rng.range(0, 12), alphabet=b"ab \r\n\x00")
        nm = rng.choice(names)
        yield line(c0, start(rng, cfg, login=False) + ["%s:%s@%s" % (nm, H(a), R(b"200 ok")), op_simple(rng, cfg, "noop", 200)])

# ---------------------------------------------------------------- C10
CLASS_CODES = [110, 120, 150, 200, 226, 230, 250, 331, 332, 350, 421, 425, 500, 530, 550]

def gen_c10(ctx):
    rng = ctx["rng"]
    for t in ("I", "A"):
        # login: every code at USER x every code at PASS x every code at TYPE
        for c1 in CLASS_CODES:
            for c2 in (CLASS_CODES if c1 == 331 else [200]):
                for c3 in (200, 500):
                    cfg = Cfg(rng, "C10", ttype=t); c0 = str(cfg)
                    yield line(c0, [op_connect(rng, cfg), op_login(rng, cfg, codes=(c1, c2, c3)), op_simple(rng, cfg, "noop", 200)])
                    cfg = Cfg(rng, "C10", ttype=t); c0 = str(cfg)
                    yield line(c0, [op_connect(rng, cfg, user=(b"u", b"p"), login_codes=(c1, c2, c3)), op_simple(rng, cfg, "noop", 200)])
        for g in CLASS_CODES:
            cfg = Cfg(rng, "C10", ttype=t); c0 = str(cfg)
            yield line(c0, [op_connect(rng, cfg, user=(b"u", b"p"), greeting=[rnd_reply(rng, g)])])
        # a preliminary 120 followed by every class of greeting, with credentials: what follows the 120 decides
        for g in CLASS_CODES:
            if g != 120:
                cfg = Cfg(rng, "C10", ttype=t); c0 = str(cfg)
                yield line(c0, [op_connect(rng, cfg, user=(b"u", b"p"), greeting=[rnd_reply(rng, 120), rnd_reply(rng, g)])] +
                           ([] if g == 421 else [op_simple(rng, cfg, "noop", 200)]))
        for c1 in CLASS_CODES:
            for c2 in (250, 553):
                cfg = Cfg(rng, "C10", ttype=t); c0 = str(cfg)
                yield line(c0, start(rng, cfg, login=False) + [op_rename(rng, cfg, c1=c1, c2=c2), op_simple(rng, cfg, "noop", 200)])
            for tt in ("A", "I"):
                cfg = Cfg(rng, "C10", ttype=t); c0 = str(cfg)
                yield line(c0, start(rng, cfg, login=False) + [op_type(rng, cfg, t=tt, code=c1), "isconn", op_type(rng, cfg), op_simple(rng, cfg, "noop", 200)])
            for nm, takes, ok in SIMPLE:
                cfg = Cfg(rng, "C10", ttype=t); c0 = str(cfg)
                yield line(c0, start(rng, cfg, login=False) + [op_simple(rng, cfg, nm, c1)] + ([] if c1 == 421 else [op_simple(rng, cfg, "noop", 200)]))
    ctx["scopes"].append("login x every code of %s at USER / PASS / TYPE; rename, TYPE and every simple call x every code; both configured types" % CLASS_CODES)
    for _ in range(n_of(ctx, 300, 4000)):
        cfg0, ops = random_history(rng, "C10")
        yield line(cfg0, ops)

# ---------------------------------------------------------------- C12
def gen_c12(ctx):
    rng = ctx["rng"]
    for mode in "pa":
        for rfc in (0, 1):
            for t in ("I", "A"):
                for cancel in ("", "0", "1", "01", "001", "0001", "00001"):
                    for kind in ("get", "put"):
                        cfg = Cfg(rng, "C12", mode=mode, rfc=rfc, ttype=t, ip=4); c0 = str(cfg)
                        size = rng.choice([0, 1, 100, 8192, 8193, 20000, 40000]) if "1" not in cancel else None
                        if t == "A" and size and size > 9000: size = 9000
                        o = op_get(rng, cfg, cancel=cancel, size=size) if kind == "get" else op_put(rng, cfg, cancel=cancel, size=size)
                        yield line(c0, start(rng, cfg, login=False) + [o, op_simple(rng, cfg, "noop", 200)])
    ctx["scopes"].append("downloads and uploads x cancellation at poll 0,1,2,3,4 / never x four methods x both types")
    for _ in range(n_of(ctx, 200, 3000)):
        cfg = Cfg(rng, "C12"); c0 = str(cfg)
        cancel = rng.choice(["", "0", "00", "1", "01", "001", "0001"])
        o = op_get(rng, cfg, cancel=cancel) if rng.chance(1, 2) else op_put(rng, cfg, cancel=cancel)
        yield line(c0, start(rng, cfg, login=False) + [o])

# ---------------------------------------------------------------- C13
def gen_c13(ctx):
    rng = ctx["rng"]
    left = [R(b"555 LEFTOVER"), "r" + b"226 part".hex(), "r" + b"\n".hex(), R(b"226-multi\r\n226 end")]
    for extra in left:
        for how in ("disc0", "disc1", "421", "eof", "throw"):
            cfg = Cfg(rng, "C13"); c0 = str(cfg)
            ops = start(rng, cfg, login=False)
            if how == "disc0": ops += ["noop@%s,%s" % (R(b"200 ok"), extra), "disc:0"]
            elif how == "disc1": ops += ["noop@%s,%s" % (R(b"200 ok"), extra), "disc:1@" + R(b"221 bye")]
            elif how == "421": ops += ["noop@%s,%s" % (R(b"421 closing"), extra), "isconn"]
            elif how == "eof": ops += ["noop@r" + b"200 trunc".hex(), "disc:0"]
            else: ops += ["noop@%s,%s" % (R(b"abc not a reply"), extra), "disc:0"]
            ops += ["isconn", op_connect(rng, cfg, user=(b"u", b"p") if rng.chance(1, 2) else None), op_simple(rng, cfg, "noop", 200), op_disc(rng, cfg, graceful=True), "isconn"]
            yield line(c0, ops)
    # a 421 at every position at which the client reads a reply: greeting, after a 120, USER / PASS / TYPE, set-up command,
    # transfer command, completion reply, RNFR / RNTO, the replies to ABOR, QUIT - then: not connected, and a new session works
    for mode in "pa":
        for rfc in (0, 1):
            cfg = Cfg(rng, "C13", mode=mode, rfc=rfc, ttype="I", ip=4); c0 = str(cfg)
            r421 = lambda: rnd_reply(rng, 421)
            abor = lambda tail: "get:%s:ok:p1@" % H(b"f.bin") + "/".join([setup_groups(rng, cfg), ",".join([rnd_reply(rng, 150), "Dsend:g5.20000::c"])] + tail)
            cases = [
                [op_connect(rng, cfg, greeting=[r421()])],
                [op_connect(rng, cfg, greeting=[rnd_reply(rng, 120), r421()])],
                [op_connect(rng, cfg, user=(b"u", b"p"), login_codes=(421, 0, 0))],
                [op_connect(rng, cfg, user=(b"u", b"p"), login_codes=(331, 421, 0))],
                [op_connect(rng, cfg, user=(b"u", b"p"), login_codes=(331, 230, 421))],
                start(rng, cfg) + [op_login(rng, cfg, codes=(331, 421, 0))],
                start(rng, cfg) + [op_get(rng, cfg, setup_code=421)],
                start(rng, cfg) + [op_get(rng, cfg, main_code=421)],
                start(rng, cfg) + [op_get(rng, cfg, completion=421, size=100)],
                start(rng, cfg) + [op_get(rng, cfg, completion=421, size=20000)],
                start(rng, cfg) + [op_put(rng, cfg, completion=421, size=100)],
                start(rng, cfg) + [op_put(rng, cfg, main_code=421)],
                start(rng, cfg) + [op_list(rng, cfg, main_code=421)],
                start(rng, cfg) + ["list:-:0@" + "/".join([setup_groups(rng, cfg), ",".join([rnd_reply(rng, 150), r421(), "Dsend:h%s::c" % b"a\r\nb\r\n".hex()])])],
                start(rng, cfg) + [op_rename(rng, cfg, c1=421)],
                start(rng, cfg) + [op_rename(rng, cfg, c1=350, c2=421)],
                start(rng, cfg) + [abor([r421()])],
                start(rng, cfg) + [abor([",".join([rnd_reply(rng, 426), r421()])])],
                start(rng, cfg) + [op_simple(rng, cfg, "logout", 421)],
                start(rng, cfg) + [op_disc(rng, cfg, True, code=421)],
            ]
            for ops in cases:
                yield line(c0, ops + ["isconn", op_connect(rng, cfg), op_simple(rng, cfg, "noop", 200), "isconn", "disc:0"])
    ctx["scopes"].append("a 421 at each of 20 reply positions (greeting, after 120, login steps, set-up, transfer command, completion, RNFR/RNTO, ABOR replies, REIN, QUIT) x four data-connection methods, each followed by is_connected and a new session")
    for _ in range(n_of(ctx, 300, 4000)):
        cfg = Cfg(rng, "C13"); c0 = str(cfg)
        ops = []
        for _ in range(rng.range(1, 4)):
            ops += start(rng, cfg, login=rng.chance(1, 2))
            for _ in range(rng.range(0, 3)):
                r = rng.below(8)
                if r == 0: ops.append(op_simple(rng, cfg, code=421))
                elif r == 1: ops.append(op_get(rng, cfg, size=100, reset=True))
                elif r == 2: ops.append(op_get(rng, cfg, sink_fail=0, size=100))
                elif r == 3: ops.append("noop@%s,%s" % (R(b"200 ok"), rng.choice(left)))
                else: ops.append(op_simple(rng, cfg))
            ops.append(rng.choice(["disc:0", "disc:0", op_disc(rng, cfg, True), op_disc(rng, cfg, True, code=421), "disc:1@"]))
            ops.append("isconn")
        yield line(c0, ops)

# ---------------------------------------------------------------- C14
def gen_c14(ctx):
    rng = ctx["rng"]
    # an observer is unregistered from inside another observer's callback (re-entrant removal): it must be told nothing further,
    # not even the event that is being delivered if it stands behind the remover
    for (i, j) in ((0, 1), (0, 2), (1, 2), (2, 0), (1, 0), (2, 1), (0, 3), (3, 1)):
        for kind in range(4):
            cfg = Cfg(rng, "C14", ip=4); c0 = str(cfg)
            ops = ["addobs:0", "addobs:1", "addobs:2", "addobs:3"]
            if kind == 0:
                ops += ["rmin:%d:%d" % (i, j), op_connect(rng, cfg, user=(b"u", b"p")), op_simple(rng, cfg, "noop", 200)]
            elif kind == 1:
                ops += [op_connect(rng, cfg), "rmin:%d:%d" % (i, j), op_simple(rng, cfg, "pwd", 257), op_simple(rng, cfg, "noop", 200), op_list(rng, cfg)]
            elif kind == 2:
                ops += [op_connect(rng, cfg), op_simple(rng, cfg, "noop", 200), "rmin:%d:%d" % (i, j), op_get(rng, cfg, size=100), op_simple(rng, cfg, "syst", 215)]
            else:
                ops += [op_connect(rng, cfg), "rmin:%d:%d" % (i, j), op_list(rng, cfg), "rmin:%d:%d" % (j if j != 3 else 0, (i + 1) % 3 if (i + 1) % 3 != j else (i + 2) % 3), op_rename(rng, cfg), op_simple(rng, cfg, "noop", 200)]
            ops.append(op_disc(rng, cfg, graceful=True))
            yield line(c0, ops)
    ctx["scopes"].append("re-entrant removal: observer i unregisters observer j from inside its next callback, 8 (i, j) pairs of four observers x 4 positions in a history (before connect, before a simple call, before a download, twice)")
    # a cancelled transfer whose server had already completed it: the completion reply is taken as the answer to ABOR and
    # ABOR's own answer arrives right behind it (same segment) - whatever the call returns, the observers were told
    for mode in "pa":
        for rfc in (0, 1):
            for kind in ("get", "put"):
                for tail in ((226,), (226, 226), (225,)):
                    cfg = Cfg(rng, "C14", mode=mode, rfc=rfc, ttype="I", ip=4); c0 = str(cfg)
                    # the 150 arrives alone (cut after its 8 bytes), the completion reply is still in flight when ABOR is sent
                    main = [R(b"150 ok"), rnd_reply(rng, 226)]
                    abor = ",".join(rnd_reply(rng, c) for c in tail)
                    if kind == "get":
                        o = "get:%s:ok:p01@" % H(b"f") + "/".join([setup_groups(rng, cfg, None), ",".join(main + ["Dsend:g7.9000::c", "c8.4000"]), abor])
                    else:
                        o = "put:STOR:%s:g8.9000:-:ok:p01@" % H(b"f") + "/".join([setup_groups(rng, cfg, None), ",".join(main + ["Drecv:-:c", "c8.4000"]), abor])
                    yield line(c0, ["addobs:0", "addobs:1"] + start(rng, cfg, login=False) + [o])
                    # ... and the same with the server's bytes coalescing in the client's receive queue (one network read)
                    yield line(c0 + ",merge=1", ["addobs:0", "addobs:1"] + start(rng, cfg, login=False) + [o])
    ctx["scopes"].append("cancelled transfers whose server had already sent the completion reply, ABOR answered by 226 / 226+226 / 225 right behind it x four methods x both directions, two observers")
    for _ in range(n_of(ctx, 400, 4000)):
        cfg = Cfg(rng, "C14"); c0 = str(cfg)
        ops = []
        reg = set()
        def churn():
            if rng.chance(1, 2):
                i = rng.below(3)
                if i in reg and rng.chance(1, 2): reg.discard(i); ops.append("rmobs:%d" % i)
                elif i not in reg: reg.add(i); ops.append("addobs:%d" % i)
        churn(); churn()
        ops.append(op_connect(rng, cfg, user=(b"u", b"p") if rng.chance(1, 2) else None))
        for _ in range(rng.range(1, 6)):
            churn()
            r = rng.below(10)
            if r < 3: ops.append(op_simple(rng, cfg))
            elif r < 4: ops.append(op_rename(rng, cfg))
            elif r < 5: ops.append(op_login(rng, cfg))
            elif r < 6: ops.append(op_get(rng, cfg, size=rng.choice([0, 100, 9000])))
            elif r < 7: ops.append(op_put(rng, cfg, size=rng.choice([0, 100, 9000])))
            elif r < 8: ops.append(op_list(rng, cfg))
            elif r < 9: ops.append(op_get(rng, cfg, main_code=rng.choice(NEG)))
            else: ops.append(op_get(rng, cfg, cancel=rng.choice(["1", "01"])))
        churn()
        ops.append(op_disc(rng, cfg, graceful=rng.chance(1, 2)))
        yield line(c0, ops)

# ---------------------------------------------------------------- C17
def gen_c17(ctx):
    rng = ctx["rng"]
    for _ in range(n_of(ctx, 120, 400)):
        cfg = Cfg(rng, "C17"); c0 = str(cfg)
        ops = start(rng, cfg)
        for _ in range(rng.range(10, 40) if ctx["tier"] == "quick" else rng.range(30, 80)):
            r = rng.below(16)
            if r == 0: ops.append(op_get(rng, cfg, size=rng.choice([0, 100, 9000])))
            elif r == 1: ops.append(op_put(rng, cfg, size=rng.choice([0, 100, 9000])))
            elif r == 2: ops.append(op_list(rng, cfg))
            elif r == 3: ops.append(op_get(rng, cfg, main_code=rng.choice(NEG)))
            elif r == 4: ops.append(op_put(rng, cfg, setup_code=rng.choice(NEG)))
            elif r == 5: ops.append(op_get(rng, cfg, cancel=rng.choice(["1", "01", "001"])))
            elif r == 6: ops.append(op_put(rng, cfg, cancel=rng.choice(["1", "01"])))
            elif r in (7, 8, 9, 10):
                # operations that end in an exception: the caller drops the connection and opens a new one (as the
                # command-line client does) - the session is not in step after a transfer that failed half-way
                if r == 7: ops.append(op_get(rng, cfg, size=20000, reset=True))
                elif r == 8: ops.append(op_get(rng, cfg, size=20000, sink_fail=rng.choice([0, 1])))
                elif r == 9: ops.append(op_put(rng, cfg, size=20000, src_fail=rng.choice([0, 1]), chop="-"))
                elif cfg.mode == "p":
                    t = rng.choice([x for x in BAD_PASSIVE if x.startswith(b"229" if cfg.rfc == 1 else b"227")])
                    ops.append("get:%s:ok:-@%s/%s" % (H(b"f"), R(t), R(b"150 ok")))
                else:
                    continue
                ops.append("disc:0")
                ops += start(rng, cfg, login=rng.chance(1, 2))
            elif r == 11:
                m = rng.choice(["a", "p"]); cfg.mode = m; ops.append("setmode:" + m)
            elif r == 12:
                f = rng.choice([0, 1]) if cfg.ip == 4 else 1
                cfg.rfc = f; ops.append("setrfc:%d" % f)
            elif r == 13:
                ops.append(op_list(rng, cfg, main_code=rng.choice(NEG)))
            else: ops.append(op_simple(rng, cfg, code=rng.choice([200, 250, 550])))
        if rng.chance(1, 2):
            ops.append(op_disc(rng, cfg, graceful=rng.chance(1, 2)))
        yield line(c0, ops)
