from props.client_props import gen_c04

from props.e2egen import *
from props.e2egen import line as eline

def gen_e2e(ctx):
    """uploads over real sockets, plain and TLS 1.2 / 1.3 (TLS close-notify before the TCP close)"""
    rng = ctx["rng"]
    for ver in (13, 12):
        for tls in (1, 0):
            for mode in "pa":
                for rfc in (0, 1):
                    for t, resume in (("I", 1), ("I", 0), ("A", 1)):
                        c = cfg_str(mode=mode, rfc=rfc, ttype=t, ver=ver, tls=tls, prop="C04", resume=resume)
                        ops = [connect(tls=bool(tls))]
                        for size in (0, 1, 8192, 8193, 24593, 100000):
                            if t == "A" and size > 9000: continue
                            pl = "g%d.%d" % (rng.below(1000), size) if t == "I" else "h" + rng.bytes(size, alphabet=b"ab\r\n\r\nxyz ").hex()
                            ops.append(put(mode, rfc, payload=pl, verb=rng.choice(["STOR", "STOU", "APPE"])))
                        yield eline(c, ops)
                        # sources whose reads are short in a mixed pattern (a few hundred bytes, then thousands, then one byte ...)
                        if t == "I":
                            ops = [connect(tls=bool(tls))]
                            for chop in ("100.5000", "700.1.3000.8192", "1023.1024.1025", "1.8192"):
                                ops.append(put(mode, rfc, payload="g%d.%d" % (rng.below(1000), rng.choice([20000, 50000])), chop=chop))
                            yield eline(c, ops)
    ctx["scopes"].append("real-socket uploads with mixed short source reads (100.5000, 700.1.3000.8192, 1023.1024.1025, 1.8192) x plain / TLS x four methods")
    ctx["scopes"].append("real-socket uploads (plain, TLS 1.2, TLS 1.3) x four methods x both types x resumption on / off x sizes 0..100000; the peer reports whether it saw the TLS close-notify")

def gen_conc(ctx):
    """several clients of one process transferring at the same time, each against its own scripted server (h_conc)"""
    rng = ctx["rng"]
    for rep in range(3 if ctx.get("tier") != "thorough" else 30):
        for t in ("I", "A"):
            for mode in "pa":
                for n in (2, 3, 4):
                    sizes = [rng.choice([8192, 20000, 65536, 100000, 300000]) if t == "I" else rng.choice([3000, 8192, 20000, 50000]) for _ in range(n)]
                    yield "conc %s %s %s %s" % ("ul", t, mode, ",".join("%d.%d" % (rng.below(100000), z) for z in sizes))
    ctx["scopes"].append("2-4 clients of one process transferring concurrently (both types, passive / active), each against its own server")


PROP = {"id": "C04", "stages": [{"name": "client", "target": "h_client", "gen": gen_c04, "shard": 12},
                   {"name": "e2e", "target": "h_e2e", "gen": gen_e2e, "shard": 4},
                   {"name": "conc", "target": "h_conc", "gen": gen_conc, "shard": 6}], "trivial_tags": [],
        "rule": 'binary uploads STOR/STOU/APPE: payload sizes around the 8192-byte block x four methods x IPv4/IPv6 x source chop patterns (1 byte .. full block); bytes and end-of-file seen by the peer, order of data-socket close vs. completion read from libc interposition. distinct = distinct scenario lines.',
        "assumptions": ["in-memory control transport (a socket_base subclass) stands in for the TCP control socket; data connections are real loopback TCP", "oracle values (read sizes, kernel-chosen ports, connect results) are taken from the implementation run"]}
