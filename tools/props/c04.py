from props.client_props import gen_c04
PROP = {"id": "C04", "stages": [{"name": "client", "target": "h_client", "gen": gen_c04, "shard": 12}], "trivial_tags": [],
        "rule": 'binary uploads STOR/STOU/APPE: payload sizes around the 8192-byte block x four methods x IPv4/IPv6 x source chop patterns (1 byte .. full block); bytes and end-of-file seen by the peer, order of data-socket close vs. completion read from libc interposition. distinct = distinct scenario lines.',
        "assumptions": ["in-memory control transport (a socket_base subclass) stands in for the TCP control socket; data connections are real loopback TCP", "oracle values (read sizes, kernel-chosen ports, connect results) are taken from the implementation run"]}
