from props.client_props import gen_c04
PROP = {"id": "C04", "stages": [{"name": "client", "target": "h_client", "gen": gen_c04, "shard": 12}], "trivial_tags": [], "rule": "", "assumptions": []}
