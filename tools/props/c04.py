from props.client_props import gen_c04

from props.e2egen import *
from props.e2egen import line as eline

def gen_e2e(ctx):
    """uploads over real sockets, plain and TLS 1.2 / 1.3 (TLS close-notify before the TCP close)"""
    rng = ctx["rng"]
    for ver in (13, 12):
        for tls in (1, 0):
            for mode in "pa":
                for rfc in (0, 1):
                    for t, resume in (("I", 1), ("I", 0), ("A", 1)):
                        c = cfg_str(mode=mode, rfc=rfc, ttype=t, ver=ver, tls=tls, prop="C04", resume=resume)
                        ops = [connect(tls=bool(tls))]
                        for size in (0, 1, 8192, 8193, 24593, 100000):
                            if t == "A" and size > 9000: continue
                            pl = "g%d.%d" % (rng.below(1000), size) if t == "I" else "h" + rng.bytes(size, alphabet=b"ab\r\n\r\nxyz ").hex()
                            ops.append(put(mode, rfc, payload=pl, verb=rng.choice(["STOR", "STOU", "APPE"])))
                        yield eline(c, ops)
    ctx["scopes"].append("real-socket uploads (plain, TLS 1.2, TLS 1.3) x four methods x both types x resumption on / off x sizes 0..100000; the peer reports whether it saw the TLS close-notify")

PROP = {"id": "C04", "stages": [{"name": "client", "target": "h_client", "gen": gen_c04, "shard": 12},
                   {"name": "e2e", "target": "h_e2e", "gen": gen_e2e, "shard": 4}], "trivial_tags": [],
        "rule": 'binary uploads STOR/STOU/APPE: payload sizes around the 8192-byte block x four methods x IPv4/IPv6 x source chop patterns (1 byte .. full block); bytes and end-of-file seen by the peer, order of data-socket close vs. completion read from libc interposition. distinct = distinct scenario lines.',
        "assumptions": ["in-memory control transport (a socket_base subclass) stands in for the TCP control socket; data connections are real loopback TCP", "oracle values (read sizes, kernel-chosen ports, connect results) are taken from the implementation run"]}
