from props.client_props import gen_c12
PROP = {"id": "C12", "stages": [{"name": "client", "target": "h_client", "gen": gen_c12, "shard": 12}], "trivial_tags": [], "rule": "", "assumptions": []}
