from props.client_props import gen_c12
PROP = {"id": "C12", "stages": [{"name": "client", "target": "h_client", "gen": gen_c12, "shard": 12}], "trivial_tags": [],
        "rule": 'downloads and uploads with a recording callback x cancellation reported at poll 0..4 / never x four methods x both types x payload sizes; callback events interleaved with block sizes from libc interposition; ABOR, data-socket closure, result.',
        "assumptions": ["in-memory control transport (a socket_base subclass) stands in for the TCP control socket; data connections are real loopback TCP", "oracle values (read sizes, kernel-chosen ports, connect results) are taken from the implementation run"]}
