"""C11 - with TLS configured nothing but AUTH TLS travels in clear text."""
from props.e2egen import *

BROKEN_TLS_SCENARIOS = True      # enabled once Model/ClientTls.lean models writes on an SSL layer whose handshake failed

def gen(ctx):
    rng = ctx["rng"]; tier = ctx["tier"]
    noop = "noop@" + R(b"200 ok")
    for ver in (13, 12):
        for resume in (1, 0):
            for mode in "pa":
                for rfc in (0, 1):
                    for t in ("I", "A"):
                        c = cfg_str(mode=mode, rfc=rfc, ttype=t, resume=resume, ver=ver)
                        yield line(c, [connect(), get(mode, rfc, payload="g%d.%d" % (rng.below(1000), rng.choice([0, 1, 9000, 20000]))),
                                       put(mode, rfc), lst(mode, rfc), noop, "disc:1@" + R(b"221 bye")])
        # failures injected at AUTH TLS, at the control handshake, at PBSZ/PROT, at the data connection
        for auth in (421, 431, 500, 502, 504, 530, 534):
            yield line(cfg_str(ver=ver), [connect(auth=auth), "isconn"])
        # a positive answer to AUTH TLS other than 234 is still a positive answer: the handshake must follow
        for auth in (200, 232, 334):
            yield line(cfg_str(ver=ver), [connect(auth=auth), noop, get("p", 1)])
        yield line(cfg_str(ver=ver), [connect(garbage=True), "isconn", "disc:0", connect(), noop])
        yield line(cfg_str(ver=ver, verify="peer"), [connect(bad_cert=True), "isconn", "disc:0", connect(), noop])
        yield line(cfg_str(ver=ver, verify="none"), [connect(bad_cert=True), noop, get("p", 1)])
        # the application goes on using the client after the failed handshake: nothing may leave in clear text
        login = "login:%s:%s" % (H(b"SECRETUSER07"), H(b"SECRETPASS08"))
        for fail, verify in ((dict(garbage=True), "none"), (dict(bad_cert=True), "peer")) if BROKEN_TLS_SCENARIOS else ():
            yield line(cfg_str(ver=ver, verify=verify), [connect(user=None, **fail), login, "noop", "disc:1", "isconn"])
            yield line(cfg_str(ver=ver, verify=verify), [connect(**fail), "noop", "pwd", "disc:0", connect(), noop])
            yield line(cfg_str(ver=ver, verify=verify), [connect(user=None, **fail), "isconn", login, "disc:0", "isconn"])
        # an impostor on the data port: it declines the offered session and presents a certificate of an unknown CA
        for resume in (1, 0):
            for mode in "pa":
                for rfc in (0, 1):
                    c = cfg_str(mode=mode, rfc=rfc, resume=resume, ver=ver, verify="peer")
                    yield line(c, [connect(), get(mode, rfc, end="cb"), "disc:0", connect(), lst(mode, rfc, end="cb"), "disc:0", connect(),
                                   "put:STOR:%s:g3.5000@%s/%s" % (H(b"SECRETPATH04.bin"), setup(mode, rfc), ",".join([R(b"150 go"), R(b"226 done"), "Drecv:-:cb"])), "disc:0"])
        # a transfer cancelled by its callback (ABOR) on a protected session: ABOR and whatever goes with it stays inside TLS
        abor = ",".join([R(b"426 aborted"), R(b"226 abor ok")])
        for mode in "pa":
            for rfc in (0, 1):
                c = cfg_str(mode=mode, rfc=rfc, ver=ver, verify="none")
                g = "get:%s:ok:p01@%s/%s/%s" % (H(b"SECRETPATH03.bin"), setup(mode, rfc), ",".join([R(b"150 go"), "Dsend:g7.8192::c"]), abor)
                p = "put:STOR:%s:g8.20000:p01@%s/%s/%s" % (H(b"SECRETPATH04.bin"), setup(mode, rfc), ",".join([R(b"150 go"), "Drecv:-:c"]), abor)
                yield line(c, [connect(), g, noop, p, noop, "disc:1@" + R(b"221 bye")])
        # connect() on a client that is still connected over TLS to a host that cannot be resolved: the old connection must not be
        # used in clear text afterwards
        bad = H(b"x" * 80 + b".invalid")
        for verify in ("peer", "none"):
            c = cfg_str(ver=ver, verify=verify)
            yield line(c, [connect(), "connect:%s:-" % bad, "isconn", "noop", "pwd", "disc:0", "isconn", connect(), noop, "disc:1@" + R(b"221 bye")])
            yield line(c, [connect(), get("p", 1), "connect:%s:-:%s:%s" % (bad, H(b"SECRETUSER09"), H(b"SECRETPASS10")), "login:%s:%s" % (H(b"SECRETUSER09"), H(b"SECRETPASS10")), "disc:1", "isconn"])
        for pbsz, prot in ((500, 200), (200, 534), (200, 500)):
            yield line(cfg_str(ver=ver), [connect(pbsz=pbsz, prot=prot), noop])
        for login in ((530, 0), (331, 530), (230, 0)):
            yield line(cfg_str(ver=ver), [connect(login=login), noop])
        # separate connect / login; logout returns to plaintext; reconnect
        yield line(cfg_str(ver=ver), [connect(user=None), "login:%s:%s@%s/%s/%s/%s/%s" % (H(b"SECRETUSER05"), H(b"SECRETPASS06"), R(b"331 pw"), R(b"230 ok"), R(b"200 pbsz"), R(b"200 prot"), R(b"200 type")),
                                     get("p", 1), "disc:1@" + R(b"221 bye"), connect(), noop])
        # data stream cut by a bare TCP close (no close-notify) after k bytes
        for k in (0, 1, 100, 8192, 20000):
            yield line(cfg_str(ver=ver), [connect(), get("p", 1, payload="g3.%d" % k, end="t"), "disc:0"])
            yield line(cfg_str(ver=ver), [connect(), lst("p", 1, end="t"), "disc:0"])
        # the data peer closes its connection (FIN) instead of answering the TLS handshake: a failed handshake for a download,
        # an upload and a listing alike, in all four methods
        for mode in "pa":
            for rfc in (0, 1):
                c = cfg_str(mode=mode, rfc=rfc, ver=ver)
                yield line(c, [connect(), lst(mode, rfc, end="ck"), "disc:0"])
                yield line(c, [connect(), get(mode, rfc, end="ck"), "disc:0"])
        yield line(cfg_str(ver=ver), [connect(), get("p", 1, main=550), noop])
    ctx["scopes"].append("TLS 1.2/1.3 x resumption on/off x four methods x both types (download, upload, listing); refusal of AUTH TLS with 7 codes; garbage instead of ServerHello; unknown CA with verify_peer / verify_none; PBSZ/PROT refused; a data peer with a certificate of an unknown CA (resumption on / off x four methods x download, listing, upload); login refused; truncation after 0,1,100,8192,20000 bytes")
    n = 20 if tier == "quick" else 1500
    for _ in range(n):
        ver = rng.choice([12, 13]); mode = rng.choice("pa"); rfc = rng.choice([0, 1])
        c = cfg_str(mode=mode, rfc=rfc, ttype=rng.choice("IA"), resume=rng.below(2), ver=ver, verify=rng.choice(["peer", "none"]))
        ops = [connect()]
        for _ in range(rng.range(1, 5)):
            r = rng.below(5)
            if r == 0: ops.append(get(mode, rfc, payload="g%d.%d" % (rng.below(1000), rng.choice([0, 5, 8192, 30000]))))
            elif r == 1: ops.append(put(mode, rfc, payload="g%d.%d" % (rng.below(1000), rng.choice([0, 5, 8192, 30000]))))
            elif r == 2: ops.append(lst(mode, rfc))
            elif r == 3: ops.append(noop)
            else: ops.append(get(mode, rfc, main=rng.choice(NEG)))
        ops.append("disc:%d" % rng.below(2) + ("@" + R(b"221 bye")))
        yield line(c, ops)

PROP = {
    "id": "C11",
    "stages": [{"name": "e2e", "target": "h_e2e", "gen": gen, "shard": 6}],
    "trivial_tags": ["plain"],
    "rule": "the unmodified client over real loopback sockets against the in-process FTPS server (own CA, TLS 1.2 and 1.3); the raw "
            "bytes of every send()/sendmsg() are parsed as TLS records, the server reports what it received in plaintext, planted "
            "secrets are searched in every captured byte; non-trivial = the session uses TLS",
    "assumptions": ["that boost::asio::ssl::stream / OpenSSL encrypt what is written through an established SSL, and map a missing close-notify to stream_truncated (not eof), is trusted and exercised"],
}
