"""Scenario builder for the client-level harness (h_client): operations + the server's reply groups.

A scenario is   client <cfg> <op> <op> ...   with   op := name:args@group/group/...   (see harness/env_peer.hpp).
Everything random comes from the Rng passed in.
"""
from rng import hx

def H(b):
    if isinstance(b, str):
        b = b.encode("latin-1")
    return "x" + b.hex()

def R(text, multiline=None, term=b"\r\n"):
    """raw reply item: single-line 'ddd text' or multi-line"""
    if isinstance(text, str):
        text = text.encode("latin-1")
    if multiline:
        code = text[:3]
        body = code + b"-" + text[4:] + term
        for m in multiline:
            body += m + term
        body += code + b" end" + term
        return "r" + body.hex()
    return "r" + (text + term).hex()

def rnd_reply(rng, code, text=None):
    t = text if text is not None else rng.choice([b"ok", b"done", b"", b"x y z", b"File status (a|b)"])
    ml = None
    if rng.chance(1, 5):
        ml = [rng.choice([b" more", b"", b"226-x", b"123 y", b"%d-z" % code, b"%d" % code, b"%d\tq" % code]) for _ in range(rng.range(1, 3))]
    term = b"\r\n" if rng.chance(5, 6) else b"\n"
    return R(b"%d " % code + t, multiline=ml, term=term)

def cuts(rng):
    return "" if rng.chance(2, 3) else ",c" + ".".join(str(rng.choice([1, 2, 3, 5, 7, 40])) for _ in range(rng.range(1, 4)))

COMPLETIONS = [226, 226, 226, 250, 426, 451, 552, 425]      # RFC 959 completion replies of a transfer (positive and negative)
POS1 = [125, 150]
POS2 = [200, 226, 250, 257]
NEG = [425, 426, 450, 451, 452, 500, 501, 502, 503, 530, 550, 552, 553]

class Cfg:
    def __init__(self, rng, prop, mode=None, rfc=None, ttype=None, ip=None):
        self.mode = mode if mode is not None else rng.choice(["p", "a"])
        self.rfc = rfc if rfc is not None else rng.choice([0, 1])
        self.type = ttype if ttype is not None else rng.choice(["I", "I", "A"])
        self.ip = ip if ip is not None else (6 if (rng.chance(1, 4) and self.rfc == 1) else 4)
        self.prop = prop
    def __str__(self):
        return "mode=%s,rfc=%d,type=%s,ip=%d,prop=%s" % (self.mode, self.rfc, self.type, self.ip, self.prop)
    def host(self):
        return b"::1" if self.ip == 6 else b"127.0.0.1"

def op_connect(rng, cfg, user=None, greeting=None, login_codes=None):
    g = greeting if greeting is not None else [rnd_reply(rng, 220)]
    s = "connect:%s:21" % H(cfg.host())
    groups = [",".join(g) + cuts(rng)]
    if user is not None:
        s += ":%s:%s" % (H(user[0]), H(user[1]))
        groups += login_groups(rng, cfg, login_codes)
    return s + "@" + "/".join(groups)

def login_groups(rng, cfg, codes=None):
    codes = codes or (331, 230, 200)
    gs = [rnd_reply(rng, codes[0]) + cuts(rng)]
    if codes[0] == 331:
        gs.append(rnd_reply(rng, codes[1]) + cuts(rng))
        last = codes[1]
    else:
        last = codes[0]
    if last < 400:
        gs.append(rnd_reply(rng, codes[2]) + cuts(rng))
    return gs

def op_login(rng, cfg, user=b"user", pw=b"pw", codes=None):
    return "login:%s:%s@" % (H(user), H(pw)) + "/".join(login_groups(rng, cfg, codes))

SIMPLE = [("cwd", True, 250), ("cdup", False, 200), ("pwd", False, 257), ("dele", True, 250), ("mkd", True, 257), ("rmd", True, 250),
          ("stat", None, 211), ("syst", False, 215), ("help", None, 214), ("sitehelp", False, 214), ("site", True, 200), ("noop", False, 200),
          ("logout", False, 220)]

def op_simple(rng, cfg, name=None, code=None, arg=None):
    n, takes, ok = rng.choice(SIMPLE) if name is None else [x for x in SIMPLE if x[0] == name][0]
    c = code if code is not None else (ok if rng.chance(3, 4) else rng.choice(NEG))
    s = n
    if takes is True or (takes is None and rng.chance(1, 2)):
        a = arg if arg is not None else rng.choice([b"dir", b"a b", b"", b"/x/y.txt", b"\xff\x00z"])
        s += ":" + H(a)
    return s + "@" + rnd_reply(rng, c) + cuts(rng)

def op_size(rng, cfg):
    v = rng.choice([b"213 1234", b"213 18446744073709551615", b"213 18446744073709551616", b"213 abc", b"550 no", b"213 "])
    return "size:%s@%s" % (H(b"f.bin"), R(v))

def op_mdtm(rng, cfg):
    v = rng.choice([b"213 20241104170749", b"213 19980615100045.014", b"213 20200101120000x5", b"213 123", b"550 no"])
    return "mdtm:%s@%s" % (H(b"f.bin"), R(v))

def op_type(rng, cfg, t=None, code=None):
    t = t or rng.choice(["A", "I"])
    c = code if code is not None else (200 if rng.chance(3, 4) else rng.choice(NEG))
    if c < 400:
        cfg.type = t
    return "type:%s@%s" % (t, rnd_reply(rng, c))

def op_rename(rng, cfg, c1=None, c2=None):
    c1 = c1 if c1 is not None else rng.choice([350, 350, 350, 550, 250])
    gs = [rnd_reply(rng, c1)]
    if c1 == 350:
        gs.append(rnd_reply(rng, c2 if c2 is not None else rng.choice([250, 250, 553])))
    return "rename:%s:%s@" % (H(b"old name"), H(b"new")) + "/".join(gs)

def setup_groups(rng, cfg, setup_code=None):
    """the group answering EPSV / PASV / EPRT / PORT"""
    if cfg.mode == "p":
        if setup_code is None:
            return ("E" if cfg.rfc else "P") + cuts(rng)
        return rnd_reply(rng, setup_code)
    return rnd_reply(rng, setup_code if setup_code is not None else 200) + cuts(rng)

def payload(rng, size=None, ascii_ok=False):
    if size is None:
        size = rng.choice([0, 1, 5, 100, 8191, 8192, 8193, 16383, 16384, 16385, 30000])
    if size <= 256 or ascii_ok:
        if rng.chance(1, 2):
            data = rng.bytes(size, alphabet=b"ab\r\n\r\nxyz ")
        else:
            data = rng.bytes(size)
        return "h" + data.hex(), data
    seed = rng.below(10**6)
    return "g%d.%d" % (seed, size), None

def op_get(rng, cfg, setup_code=None, main_code=None, cancel=None, size=None, reset=False, sink_fail=None, completion=226):
    groups = [setup_groups(rng, cfg, setup_code)]
    sizes_l = [rng.choice([1, 100, 1460, 8192, 20000]) for _ in range(rng.range(0, 3))]
    if size is None and sizes_l and min(sizes_l) < 1000:
        size = rng.choice([0, 1, 5, 100, 700])          # many tiny segments: keep the event count small
    elif size is not None and size > 2000:
        sizes_l = [x for x in sizes_l if x >= 1000]
    if cancel is not None and size is None:
        size = 8192 * max(0, cancel.count("0") - 1) + rng.choice([1, 100, 8192, 9000])
    spec, _ = payload(rng, size, ascii_ok=(cfg.type == "A"))
    cb = "-" if cancel is None else "p" + cancel
    if setup_code is None or setup_code < 400:
        mc = main_code if main_code is not None else rng.choice(POS1)
        if mc < 400:
            sizes = ".".join(str(x) for x in sizes_l)
            comp = [rnd_reply(rng, completion)] if completion else []
            act = "Dsend:%s:%s:%s" % (spec, sizes, "r" if reset else "c")
            if cancel is not None and "1" in cancel:
                # the server had not finished: the transfer command is answered 1xx only, ABOR gets 426 + 226
                groups.append(",".join([rnd_reply(rng, mc), act]))
                groups.append(",".join([rnd_reply(rng, 426), rnd_reply(rng, 226)]))
            else:
                groups.append(",".join([rnd_reply(rng, mc)] + comp + [act]) + cuts(rng))
        else:
            groups.append(rnd_reply(rng, mc))
    sink = "ok" if sink_fail is None else "fail%d" % sink_fail
    return "get:%s:%s:%s@" % (H(b"remote file.bin"), sink, cb) + "/".join(groups)

def op_put(rng, cfg, verb=None, setup_code=None, main_code=None, cancel=None, size=None, src_fail=None, completion=226, chop=None, poison=False):
    verb = verb or rng.choice(["STOR", "STOU", "APPE"])
    groups = [setup_groups(rng, cfg, setup_code)]
    if chop is None:
        chop = rng.choice(["-", "1", "2.3", "8192", "100.1.7000", "8191.1"])
    if size is None and chop in ("1", "2.3"):
        size = rng.choice([0, 1, 5, 100, 700])          # many tiny blocks: keep the event count small
    elif size is not None and size > 2000 and chop in ("1", "2.3"):
        chop = rng.choice(["-", "8192", "100.1.7000", "8191.1"])
    if cancel is not None and size is None:
        size = 8192 * max(0, cancel.count("0") - 1) + rng.choice([1, 100, 8192, 9000])
        chop = "-"
    spec, _ = payload(rng, size, ascii_ok=(cfg.type == "A"))
    cb = "-" if cancel is None else "p" + cancel
    if setup_code is None or setup_code < 400:
        mc = main_code if main_code is not None else rng.choice(POS1)
        if mc < 400:
            comp = [rnd_reply(rng, completion)] if completion else []
            if cancel is not None and "1" in cancel:
                groups.append(",".join([rnd_reply(rng, mc), "Drecv:-:c"]))
                groups.append(",".join([rnd_reply(rng, 426), rnd_reply(rng, 226)]))
            else:
                groups.append(",".join([rnd_reply(rng, mc)] + comp + ["Drecv:-:c"]) + cuts(rng))
        else:
            groups.append(rnd_reply(rng, mc))
    src = ("poison" if poison else "ok") if src_fail is None else "fail%d" % src_fail
    return "put:%s:%s:%s:%s:%s:%s@" % (verb, H(b"up.bin"), spec, chop, src, cb) + "/".join(groups)

def op_list(rng, cfg, setup_code=None, main_code=None, names=None, text=None, completion=226):
    groups = [setup_groups(rng, cfg, setup_code)]
    if text is None:
        text = rng.choice([b"", b"a\r\nb\r\n", b"a\nb\n", b"drwxr-xr-x 2 0 0 4096 Jan 1 dir\r\n-rw-r--r-- 1 0 0 12 Jan 1 f.txt\r\n", b"x\r\r\ny", b"\r\n\r\n"])
    if setup_code is None or setup_code < 400:
        mc = main_code if main_code is not None else rng.choice(POS1)
        if mc < 400:
            groups.append(",".join([rnd_reply(rng, mc), rnd_reply(rng, completion), "Dsend:h%s::c" % text.hex()]) + cuts(rng))
        else:
            groups.append(rnd_reply(rng, mc))
    path = "-" if rng.chance(1, 2) else H(rng.choice([b"dir", b"", b"a b"]))
    return "list:%s:%d@" % (path, (rng.below(2) if names is None else names)) + "/".join(groups)

def op_disc(rng, cfg, graceful=True, code=221):
    if graceful:
        return "disc:1@" + rnd_reply(rng, code)
    return "disc:0"

def random_history(rng, prop, nops=None, cfg=None, with_transfers=True, login=True):
    cfg = cfg or Cfg(rng, prop)
    cfg0 = str(cfg)
    ops = []
    if rng.chance(1, 2):
        ops.append("addobs:0")
    if login and rng.chance(1, 2):
        ops.append(op_connect(rng, cfg, user=(b"user", b"secret")))
    else:
        ops.append(op_connect(rng, cfg))
        if login:
            ops.append(op_login(rng, cfg))
    n = nops if nops is not None else rng.range(1, 8)
    for _ in range(n):
        r = rng.below(20)
        if r < 6 or not with_transfers:
            k = rng.below(6)
            if k == 0: ops.append(op_size(rng, cfg))
            elif k == 1: ops.append(op_mdtm(rng, cfg))
            elif k == 2: ops.append(op_type(rng, cfg))
            elif k == 3: ops.append(op_rename(rng, cfg))
            else: ops.append(op_simple(rng, cfg))
        elif r < 10:
            ops.append(op_get(rng, cfg, completion=rng.choice(COMPLETIONS)))
        elif r < 13:
            ops.append(op_put(rng, cfg, completion=rng.choice(COMPLETIONS)))
        elif r < 15:
            ops.append(op_list(rng, cfg, completion=rng.choice(COMPLETIONS)))
        elif r < 16:
            ops.append(op_get(rng, cfg, main_code=rng.choice(NEG)))
        elif r < 17:
            ops.append(op_put(rng, cfg, setup_code=rng.choice(NEG)))
        elif r < 18:
            m = rng.choice(["a", "p"]); cfg.mode = m; ops.append("setmode:" + m)
        elif r < 19:
            f = rng.choice([0, 1]) if cfg.ip == 4 else 1
            cfg.rfc = f; ops.append("setrfc:%d" % f)
        else:
            ops.append(rng.choice(["addobs:1", "rmobs:0", "addobs:2", "rmobs:1", "isconn"]))
    if rng.chance(2, 3):
        ops.append(op_disc(rng, cfg, graceful=rng.chance(2, 3)))
    return cfg0, ops

def line(cfg0, ops):
    return "client %s %s" % (cfg0, " ".join(ops))
