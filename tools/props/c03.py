from props.client_props import gen_c03
PROP = {"id": "C03", "stages": [{"name": "client", "target": "h_client", "gen": gen_c03, "shard": 12}], "trivial_tags": [], "rule": "", "assumptions": []}
