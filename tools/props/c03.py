from props.client_props import gen_c03

from props.e2egen import *
from props.e2egen import line as eline

def gen_e2e(ctx):
    """downloads and listings over real sockets, plain and TLS 1.2 / 1.3: here the completion reply really is on the wire
    before / while the data arrives (the scripted server sends 150 and 226 at once and only then starts the data)"""
    rng = ctx["rng"]
    for ver in (13, 12):
        for tls in (1, 0):
            for mode in "pa":
                for rfc in (0, 1):
                    for t in ("I", "A"):
                        c = cfg_str(mode=mode, rfc=rfc, ttype=t, ver=ver, tls=tls, prop="C03", resume=rng.below(2))
                        ops = [connect(tls=bool(tls))]
                        for size in (0, 1, 8192, 8193, 24593, 100000):
                            if t == "A" and size > 9000: continue
                            seed = rng.below(1000)
                            pl = "g%d.%d" % (seed, size) if t == "I" else "h" + rng.bytes(size, alphabet=b"ab\r\n\r\nxyz ").hex()
                            g = [setup(mode, rfc), ",".join([R(b"150 go"), R(b"226 done"), "Dsend:%s:%s:c" % (pl, rng.choice(["", "1460", "100.5000", "8192"]))])]
                            ops.append("get:%s:ok:-@" % H(b"f.bin") + "/".join(g))
                        ops.append(lst(mode, rfc))
                        yield eline(c, ops)
    ctx["scopes"].append("real-socket downloads (plain, TLS 1.2, TLS 1.3) x four methods x both types x sizes 0..100000 with the 226 sent before the data")

def gen_conc(ctx):
    """several clients of one process transferring at the same time, each against its own scripted server (h_conc)"""
    rng = ctx["rng"]
    for rep in range(3 if ctx.get("tier") != "thorough" else 30):
        for t in ("I", "A"):
            for mode in "pa":
                for n in (2, 3, 4):
                    sizes = [rng.choice([8192, 20000, 65536, 100000, 300000]) if t == "I" else rng.choice([3000, 8192, 20000, 50000]) for _ in range(n)]
                    yield "conc %s %s %s %s" % ("dl", t, mode, ",".join("%d.%d" % (rng.below(100000), z) for z in sizes))
    ctx["scopes"].append("2-4 clients of one process transferring concurrently (both types, passive / active), each against its own server")


PROP = {"id": "C03", "stages": [{"name": "client", "target": "h_client", "gen": gen_c03, "shard": 12},
                   {"name": "e2e", "target": "h_e2e", "gen": gen_e2e, "shard": 4},
                   {"name": "conc", "target": "h_conc", "gen": gen_conc, "shard": 6}], "trivial_tags": [],
        "rule": 'binary downloads and listings: payload sizes around the 8192-byte block x passive/active x EPSV-EPRT/PASV-PORT x IPv4/IPv6, random server write segmentation, plus random short histories; sink bytes (length + FNV-64, content when short), flush count and position compared with the payload the peer wrote. distinct = distinct scenario lines.',
        "assumptions": ["in-memory control transport (a socket_base subclass) stands in for the TCP control socket; data connections are real loopback TCP", "oracle values (read sizes, kernel-chosen ports, connect results) are taken from the implementation run"]}
