from props.client_props import gen_c03
PROP = {"id": "C03", "stages": [{"name": "client", "target": "h_client", "gen": gen_c03, "shard": 12}], "trivial_tags": [],
        "rule": 'binary downloads and listings: payload sizes around the 8192-byte block x passive/active x EPSV-EPRT/PASV-PORT x IPv4/IPv6, random server write segmentation, plus random short histories; sink bytes (length + FNV-64, content when short), flush count and position compared with the payload the peer wrote. distinct = distinct scenario lines.',
        "assumptions": ["in-memory control transport (a socket_base subclass) stands in for the TCP control socket; data connections are real loopback TCP", "oracle values (read sizes, kernel-chosen ports, connect results) are taken from the implementation run"]}
