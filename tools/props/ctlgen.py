"""Generators for control-stream scenarios (shared by C01, C08, C13)."""
from rng import hx, hexlist
import itertools

def enc_reply(code, lines, terms):
    """lines: list of texts (after the code+sep); first..last; terms: list of b'\\r\\n' | b'\\n' per line.
       single-line when len(lines)==1; middle lines are raw (no code prefix is added)."""
    c = b"%03d" % code
    if len(lines) == 1:
        return c + b" " + lines[0] + terms[0]
    out = c + b"-" + lines[0] + terms[0]
    for m, t in zip(lines[1:-1], terms[1:-1]):
        out += m + t
    out += c + b" " + lines[-1] + terms[-1]
    return out

def all_cuts(b):
    n = len(b)
    if n == 0:
        yield [b]; return
    for mask in range(1 << (n - 1)):
        parts = []; start = 0
        for i in range(n - 1):
            if mask >> i & 1:
                parts.append(b[start:i + 1]); start = i + 1
        parts.append(b[start:])
        yield parts

def small_replies():
    """small grammar of well-formed replies (encoded), shortest first"""
    out = []
    for code in (150, 226):
        for text in (b"", b"a"):
            for term in (b"\r\n", b"\n"):
                out.append(enc_reply(code, [text], [term]))
        for mid in ([], [b""], [b"a"], [b"2"], [b"%03d-" % code], [b"226"], [b" x"]):
            for term in (b"\r\n", b"\n"):
                lines = [b""] + mid + [b""]
                out.append(enc_reply(code, lines, [term] * len(lines)))
    return out

def random_wf_reply(rng, big=False):
    code = rng.range(100, 599)
    if code == 421:
        code = 422      # 421 makes the client close the connection (C13): it can only be the last reply of a session
    def text(maxlen):
        n = rng.choice([0, 1, 3, 10, 40]) if not big else rng.choice([8150, 8180, 8184, 8185])
        n = min(n, maxlen)
        alpha = b"abc -0123456789.()|,\t\x00\xff"
        return rng.bytes(n, alphabet=alpha)
    def term():
        return b"\r\n" if rng.chance(3, 4) else b"\n"
    if rng.chance(3, 5):
        return enc_reply(code, [text(8185)], [term()])
    k = rng.range(0, 4)
    mids = []
    for _ in range(k):
        r = rng.below(7)
        if r == 6: m = b"%03d" % code + rng.choice([b"", b"\t", b"\x0b", b"\x0c", b"\tx y", b"-", b"x", b"\xa0z"]) + (text(20) if rng.chance(1, 3) else b"")   # own code, no space
        elif r == 0: m = b"%03d-" % code + text(100)
        elif r == 1: m = b"%03d " % ((code + 1 - 100) % 500 + 100) + text(100)       # another code
        elif r == 2: m = rng.bytes(rng.range(0, 3), alphabet=b"0123456789") + text(100)
        elif r == 3: m = b" " + text(100)
        elif r == 4: m = b""
        else: m = text(100)
        # a middle line must not be a closing line
        if len(m) >= 4 and m[:3] == b"%03d" % code and m[3:4] == b" ":
            m = b"x" + m
        mids.append(m)
    lines = [text(60)] + mids + [text(60)]
    return enc_reply(code, lines, [term() for _ in lines])

def random_cuts(rng, b, bias_cr=True):
    n = len(b)
    if n <= 1:
        return [b]
    k = rng.choice([0, 1, 1, 2, 3, 5, 10, 40])
    cuts = set()
    for _ in range(k):
        if bias_cr and rng.chance(1, 2):
            idx = [i + 1 for i in range(n - 1) if b[i] == 13]        # right after a CR
            if idx:
                cuts.add(rng.choice(idx)); continue
        cuts.add(rng.range(1, n - 1))
    cuts = sorted(cuts)
    parts = []; start = 0
    for c in cuts:
        parts.append(b[start:c]); start = c
    parts.append(b[start:])
    return [p for p in parts if p]
