"""C19 - the command-line parser is total, case-insensitive and inverts its quoting."""
from rng import hx, hexlist
import itertools

VERBS = ["open", "user", "cd", "cdup", "ls", "pwd", "mkdir", "rmdir", "put", "get", "rename", "size", "del", "stat", "syst", "type",
         "binary", "ascii", "mode", "active", "passive", "noop", "rhelp", "logout", "close", "help", "exit"]
NEAR = b"abcdefghijklmnopqrstuvwxyzABCDEXZ019_-."

def gen(ctx):
    rng = ctx["rng"]; tier = ctx["tier"]
    for v in VERBS:
        for mask in range(1 << len(v)):
            w = "".join(ch.upper() if mask >> i & 1 else ch for i, ch in enumerate(v))
            yield "cmd " + hx(w)
        b = v.encode()
        for i in range(len(b) + 1):
            for ch in NEAR:
                yield "cmd " + hx(b[:i] + bytes([ch]) + b[i:])
                if i < len(b):
                    yield "cmd " + hx(b[:i] + bytes([ch]) + b[i + 1:])
            if i < len(b):
                yield "cmd " + hx(b[:i] + b[i + 1:])
            yield "cmd " + hx(b[:i])
        for suffix in (b" ", b"\t", b"\x00", b"\x80", b"\xc4\xb0", b"x", b" x", b"\"", b"\\", b" \"", b" \"a", b" \"a\\", b" a\"b", b" \"\"", b"\x0b", b"\x0c x", b"\r", b"\n"):
            yield "cmd " + hx(b + suffix)
            yield "cmd " + hx(suffix + b)
    ctx["scopes"].append("all 2^n case variants of the 27 verbs; every single insertion/substitution over a 40-character alphabet, every deletion and prefix")
    L = 6 if tier == "quick" else 7
    for k in range(0, L + 1):
        for t in itertools.product(b"get \"\\\t", repeat=k):
            yield "cmd " + hx(bytes(t))
    ctx["scopes"].append("every line over {g,e,t,SP,\",\\,TAB} up to length %d" % L)
    n = 20000 if tier == "quick" else 300000
    for i in range(n):
        r = i % 4
        if r == 0:
            yield "cmd " + hx(rng.bytes(rng.range(0, 24)))
        elif r == 1:
            v = rng.choice(VERBS).encode()
            v = bytes(c - 32 if rng.chance(1, 3) else c for c in v)
            rest = rng.bytes(rng.range(0, 30), alphabet=b"ab \"\\\t\r\n\x00\xff/.")
            yield "cmd " + hx(rng.choice([b"", b" ", b"\t "]) + v + rng.choice([b" ", b"", b"\t"]) + rest)
        else:
            v = rng.choice(VERBS)
            k = rng.range(0, 4)
            args = []; seps = []
            for _ in range(k):
                args.append(rng.bytes(rng.range(0, 12), alphabet=b"ab \"\\\t\r\n\x00\xff/.'") if rng.chance(2, 3) else rng.bytes(rng.range(0, 12)))
                seps.append(rng.bytes(rng.range(1, 3), alphabet=b" \t\r\n\x0b\x0c"))
            yield "cmdrt %s %s %s" % (v, hexlist(args), hexlist(seps))

def gen_sweep4(ctx):
    """4-byte first tokens (no white space, quote, backslash, NUL) through the real parser: which ones does it accept, and as what?
    16 shards visit the 250^4 tokens in a scattered order for a bounded time (the complete sweep takes 20-50 minutes on this
    machine - every invalid token costs a C++ exception - so the thorough tier covers what 8 minutes allow, about a fifth, and
    each shard reports `done:<k>/<n>`); in the quick tier the stage runs only as the search for a failing input when a proof
    obligation or the correspondence of C19 is broken (100 s per shard)"""
    secs = 480 if ctx.get("tier") == "thorough" else 100
    for i in range(16):
        yield "verbsweep %d 16 %d" % (i, secs)

PROP = {
    "id": "C19",
    "stages": [{"name": "pure", "target": "h_pure", "gen": gen},
               {"name": "sweep4", "target": "h_pure", "gen": gen_sweep4, "shard": 1, "thorough_only": True, "fallback": True}],
    "trivial_tags": ["invalid"],
    "rule": "real parse_command on the stated exhaustive scopes, random full-range byte lines, verb-led lines with quote/escape-rich tails and "
            "random argument lists rendered with quoting (round trip); exception type classified. Non-trivial = the line parses to a command; "
            "distinct = distinct lines.",
    "assumptions": ["std::istringstream >>, std::quoted (libstdc++ 12) and boost::iequals in the C locale behave as transcribed in Model/CmdParser.lean"],
}
