"""C18 - data connections reuse the control TLS session and context when asked to."""
from props.e2egen import *

def gen(ctx):
    rng = ctx["rng"]; tier = ctx["tier"]
    noop = "noop@" + R(b"200 ok")
    # contexts created WITHOUT resumption that carry an application verify callback: first in the list, so that every harness
    # process (lines are dealt round-robin to at most 16 processes) meets one before any resumption-enabled context has been
    # created in it - whether a data connection offers a session must not depend on what else lives in the SSL_CTX or on the
    # order in which contexts are created
    for k in range(16):
        ver = (13, 12)[k % 2]; mode = "pa"[(k // 2) % 2]; rfc = (k // 4) % 2
        c = cfg_str(mode=mode, rfc=rfc, resume=0, ver=ver, verify=("peer", "none")[(k // 8) % 2], prop="C18", vcb=1)
        yield line(c, [connect(), get(mode, rfc), put(mode, rfc), lst(mode, rfc), "disc:1@" + R(b"221 bye")])
    for k in range(8):
        ver = (13, 12)[k % 2]; mode = "pa"[(k // 2) % 2]; rfc = (k // 4) % 2
        c = cfg_str(mode=mode, rfc=rfc, resume=1, ver=ver, prop="C18", vcb=1, reqreuse=k % 2)
        yield line(c, [connect(), get(mode, rfc), put(mode, rfc), "disc:1@" + R(b"221 bye")])
    for ver in (13, 12):
        for resume in (1, 0):
            for mode in "pa":
                for rfc in (0, 1):
                    for reqreuse in ((0, 1) if resume else (0,)):
                        c = cfg_str(mode=mode, rfc=rfc, resume=resume, ver=ver, reqreuse=reqreuse, prop="C18")
                        n = rng.range(2, 6) if tier == "quick" else rng.range(5, 20)
                        ops = [connect()]
                        for i in range(n):
                            ops.append(rng.choice([get(mode, rfc, payload="g%d.%d" % (i, rng.choice([0, 100, 9000]))), put(mode, rfc, payload="g%d.%d" % (i, rng.choice([0, 100, 9000]))), lst(mode, rfc)]))
                        # reconnect: the new control session is the one that must be offered afterwards
                        ops += ["disc:1@" + R(b"221 bye"), connect(), get(mode, rfc), put(mode, rfc)]
                        yield line(c, ops)
                        # every way a control session can end, then a new one: after QUIT, after a non-graceful disconnect, after
                        # a 421 (the library closes by itself) with and without a disconnect, after logout + login (REIN drops
                        # the TLS layer), by connecting again while connected - the *current* session is the one to offer
                        bye = "disc:1@" + R(b"221 bye")
                        for ending in ([bye], ["disc:0"], ["noop@" + R(b"421 closing") + ",X"], ["noop@" + R(b"421 closing") + ",X", "disc:0"],
                                       ["noop@X", "disc:0"], []):
                            yield line(c, [connect(), get(mode, rfc)] + ending + [connect(), get(mode, rfc), put(mode, rfc), lst(mode, rfc)] + ending + [connect(), get(mode, rfc)])
        # a cancelled transfer (ABOR) in the middle of a session with resumption: the transfers after it must still resume
        abor = ",".join([R(b"426 aborted"), R(b"226 abor ok")])
        for mode in "pa":
            for rfc in (0, 1):
                for reqreuse in (0, 1):
                    c = cfg_str(mode=mode, rfc=rfc, resume=1, ver=ver, reqreuse=reqreuse, prop="C18")
                    g = "get:%s:ok:p01@%s/%s/%s" % (H(b"SECRETPATH03.bin"), setup(mode, rfc), ",".join([R(b"150 go"), "Dsend:g7.8192::c"]), abor)
                    p = "put:STOR:%s:g8.20000:p01@%s/%s/%s" % (H(b"SECRETPATH04.bin"), setup(mode, rfc), ",".join([R(b"150 go"), "Drecv:-:c"]), abor)
                    yield line(c, [connect(), get(mode, rfc), g, lst(mode, rfc), get(mode, rfc), p, put(mode, rfc), lst(mode, rfc), "disc:1@" + R(b"221 bye")])
        # the data peer answers with another context (no session to resume, certificate of an unknown CA): with verify=peer the
        # data connection must be refused exactly as the control connection would refuse it; with verify=none it is accepted
        for resume in (1, 0):
            for mode in "pa":
                for rfc in (0, 1):
                    for verify in ("peer", "none"):
                        c = cfg_str(mode=mode, rfc=rfc, resume=resume, ver=ver, verify=verify, prop="C18")
                        yield line(c, [connect(), get(mode, rfc), get(mode, rfc, end="cb"), "disc:0", connect(), get(mode, rfc), "disc:1@" + R(b"221 bye")])
                        yield line(c, [connect(), "put:STOR:%s:g3.5000@%s/%s" % (H(b"SECRETPATH04.bin"), setup(mode, rfc), ",".join([R(b"150 go"), R(b"226 done"), "Drecv:-:cb"])), "disc:0", connect(), lst(mode, rfc)])
        # verification settings are those of the control connection: an untrusted certificate fails on both or on neither
        yield line(cfg_str(ver=ver, verify="none", prop="C18"), [connect(bad_cert=True), get("p", 1), put("p", 1)])
    ctx["scopes"].append("TLS 1.2/1.3 x resumption on/off x four methods x server requires reuse on/off, 2-6 (thorough 5-20) consecutive transfers, then reconnect and transfer again; sessions ended by QUIT / non-graceful disconnect / 421 with and without disconnect / server drop / connect while connected, each followed by transfers on the new session; cancelled transfers (ABOR) followed by further transfers on the same session; contexts with an application verify callback (no resumption first in every harness process, then with resumption); data peer answering with a certificate of another CA x verify peer / none x resumption on / off x four methods")

PROP = {
    "id": "C18",
    "stages": [{"name": "e2e", "target": "h_e2e", "gen": gen, "shard": 4}],
    "trivial_tags": [],
    "rule": "interposed SSL_new / SSL_set_session record the context and the offered session of every client SSL object; the server "
            "reports SSL_session_reused() per data connection and can require reuse; distinct = distinct scenario lines",
    "assumptions": ["what OpenSSL does with the offered session (ticket handling, resumption) is trusted and observed on the server side"],
}
