"""C16 - typed replies carry a value exactly when the 213 payload is well-formed."""
from rng import hx
import itertools

ALPHA = b"09. a-"

def gen(ctx):
    rng = ctx["rng"]; tier = ctx["tier"]
    L = 5 if tier == "quick" else 7
    for k in range(0, L + 1):
        for t in itertools.product(ALPHA, repeat=k):
            p = b"213 " + bytes(t)
            yield "size 213 " + hx(p)
            yield "mdtm 213 " + hx(p)
    ctx["scopes"].append("size/mdtm: every payload over {0,9,.,space,a,-} up to length %d after '213 '" % L)
    # digit strings around the 8/16/32/64-bit limits
    for lim in (2**8, 2**16, 2**32, 2**64):
        for d in range(-3, 4):
            for z in ("", "0", "000"):
                s = (z + str(lim + d)).encode()
                yield "size 213 " + hx(b"213 " + s)
                for op in ("u8", "u16", "u32", "u64"):
                    yield "%s %s" % (op, hx(s))
    for nd in range(17, 24):
        for _ in range(40):
            s = bytes(rng.choice(b"0123456789") for _ in range(nd))
            yield "size 213 " + hx(b"213 " + s)
            yield "u64 " + hx(s)
    for s in (b"", b"0", b"00", b"+1", b"-1", b" 1", b"1 ", b"1a", b"a1", b"0x10", b"1.0", b"18446744073709551615",
              b"18446744073709551616", b"99999999999999999999", b"184467440737095516150"):
        yield "size 213 " + hx(b"213 " + s)
        yield "u64 " + hx(s)
        for c in (0, 200, 212, 214, 550, 65535):
            yield "size %d %s" % (c, hx(b"213 " + s))
            yield "mdtm %d %s" % (c, hx(b"213 20200101120000"))
    for t in (b"", b"2", b"21", b"213", b"213 ", b"2131", b"XXXX12", b"213-12", b"21312"):
        yield "size 213 " + hx(t)
        yield "mdtm 213 " + hx(t)
    # time-vals: well-formed, then every single-position mutation
    base = [b"20241104170749", b"19980615100045.014", b"00000000000000", b"99999999999999.4294967295",
            b"99991231235960.4294967296", b"20200101120000.0", b"20200101120000.00000000000000000001"]
    mut = b"0 9.ax-:"
    for tv in base:
        yield "mdtm 213 " + hx(b"213 " + tv)
        for i in range(len(tv) + 1):
            for ch in mut:
                yield "mdtm 213 " + hx(b"213 " + tv[:i] + bytes([ch]) + tv[i + 1:])     # substitution
                yield "mdtm 213 " + hx(b"213 " + tv[:i] + bytes([ch]) + tv[i:])         # insertion
            yield "mdtm 213 " + hx(b"213 " + tv[:i] + tv[i + 1:])                       # deletion
            yield "mdtm 213 " + hx(b"213 " + tv[:i])                                    # truncation
    n = 3000 if tier == "quick" else 100000
    for _ in range(n):
        tv = bytes(rng.choice(b"0123456789") for _ in range(14))
        r = rng.below(6)
        if r == 0:
            pass
        elif r in (1, 2):
            tv += b"." + bytes(rng.choice(b"0123456789") for _ in range(rng.range(1, 12)))
        elif r == 3:
            tv += bytes([rng.choice(b".x, 5")]) + bytes(rng.choice(b"0123456789") for _ in range(rng.range(0, 3)))
        elif r == 4:
            i = rng.below(len(tv)); tv = tv[:i] + bytes([rng.below(256)]) + tv[i + 1:]
        else:
            tv += b"." + str(rng.choice([2**32 - 1, 2**32, 2**32 + 1, 2**64, 10**25])).encode()
        yield "mdtm 213 " + hx(b"213 " + tv)
    # listings
    LL = 8 if tier == "quick" else 10
    for k in range(0, LL + 1):
        for t in itertools.product(b"\r\nx", repeat=k):
            yield "list " + hx(bytes(t))
    ctx["scopes"].append("listing texts: every string over {CR,LF,x} up to length %d" % LL)
    for _ in range(n // 3):
        t = rng.bytes(rng.range(0, 200), alphabet=b"\r\n\r\nab c.") if rng.chance(3, 4) else rng.bytes(rng.range(0, 100))
        yield "list " + hx(t)

PROP = {
    "id": "C16",
    "stages": [{"name": "pure", "target": "h_pure", "gen": gen}],
    "trivial_tags": ["not213", "empty", "u", "split"],
    "rule": "real file_size_reply / file_modified_time_reply / file_list_reply constructors on: every payload over a 6-letter alphabet up to "
            "the stated length, digit strings around the 8/16/32/64-bit limits (+-3, leading zeros, 17-23 digits), every single-position "
            "substitution/insertion/deletion/truncation of well-formed time-vals, random time-vals, all listing texts over {CR,LF,x} up to "
            "the stated length, random listings. Non-trivial = a 213 reply with a non-empty payload / a non-empty listing.",
    "assumptions": ["std::getline / std::istringstream behave as documented"],
}
