"""C15 - reply classes partition the codes; aggregates are positive iff all members are."""
from rng import hx
import itertools

CODES = [200, 350, 550, 65535]
TEXTS = [b"", b"t"]

def gen(ctx):
    rng = ctx["rng"]; tier = ctx["tier"]
    yield "clsdef"
    for c in range(65536):
        yield "cls %d" % c
    ctx["scopes"].append("all 65536 reply codes; default-constructed reply")
    maxlen = 5 if tier == "quick" else 6
    items = ["%d:%s" % (c, hx(t)) for c in CODES for t in TEXTS]
    yield "agg -"
    for k in range(1, maxlen + 1):
        for combo in itertools.product(items, repeat=k):
            yield "agg " + ",".join(combo)
    ctx["scopes"].append("all reply sequences of length <= %d over codes {200,350,550,65535} x texts {empty,'t'}" % maxlen)
    # the aggregate is asked while it is being filled: every subset of query positions (also while it is still empty) for every
    # sequence of length <= 3, and a copy taken half-way
    for k in range(0, 4):
        for combo in itertools.product(items, repeat=k):
            for mask in range(1 << (k + 1)):
                yield "aggq %s %s" % ("".join("1" if mask >> i & 1 else "0" for i in range(k + 1)), ",".join(combo) if combo else "-")
    ctx["scopes"].append("is_positive() asked before / between / after the appends: all subsets of query positions x all sequences of length <= 3")
    n = 3000 if tier == "quick" else 60000
    for _ in range(n):
        k = rng.range(1, 40)
        seq = []
        for _ in range(k):
            r = rng.below(10)
            code = rng.range(100, 399) if r < 6 else rng.range(400, 599) if r < 9 else rng.choice([65535, 0, 399, 400, 999, 65534])
            tl = rng.choice([0, 0, 1, 3, 20])
            text = rng.bytes(tl, alphabet=b"ab \r\n-2") if rng.chance(1, 2) else rng.bytes(tl)
            seq.append("%d:%s" % (code, hx(text)))
        yield "agg " + ",".join(seq)

PROP = {
    "id": "C15",
    "stages": [{"name": "pure", "target": "h_pure", "gen": gen}],
    "trivial_tags": ["empty", "default"],
    "rule": "exhaustive: every 16-bit code through reply::is_positive/is_negative/is_intermediate; every reply sequence up to the "
            "stated length over 4 classes x 2 texts through replies::append; plus random sequences of 1-40 replies with arbitrary "
            "codes/texts. A case is non-trivial unless it is the empty aggregate or the default reply; distinct = distinct scenario lines.",
    "assumptions": ["std::string / std::vector behave as documented"],
}
