"""Scenarios for the end-to-end (TLS) harness h_e2e."""
from props.cligen import H, R, rnd_reply, NEG

def cfg_str(mode="p", rfc=1, ttype="I", tls=1, resume=1, verify="peer", ver=13, reqreuse=0, prop="C11", ip=4, vcb=0):
    return "mode=%s,rfc=%d,type=%s,ip=%d,tls=%d,resume=%d,verify=%s,ver=%d,reqreuse=%d%s,prop=%s" % (mode, rfc, ttype, ip, tls, resume, verify, ver, reqreuse, ",vcb=1" if vcb else "", prop)

def connect(user=(b"SECRETUSER01", b"SECRETPASS02"), auth=234, tls=True, bad_cert=False, garbage=False, pbsz=200, prot=200, greeting=220, login=(331, 230), pre120=False):
    groups = [(R(b"120 wait") + "," if pre120 else "") + R(b"%d hello" % greeting)]
    if tls:
        g = R(b"%d auth" % auth)
        if auth < 400:
            g += ",T" + (",B" if bad_cert else "") if not garbage else ",G"
        groups.append(g)
    if user is not None:
        groups += [R(b"%d user" % login[0])]
        last = login[0]
        if login[0] == 331:
            groups.append(R(b"%d pass" % login[1])); last = login[1]
        if last < 400:
            if tls:
                groups.append(R(b"%d pbsz" % pbsz))
                if pbsz < 400:
                    groups.append(R(b"%d prot" % prot))
            groups.append(R(b"200 type"))
    s = "connect:-:-"
    if user is not None:
        s += ":%s:%s" % (H(user[0]), H(user[1]))
    return s + "@" + "/".join(groups)

def setup(mode, rfc):
    if mode == "p":
        return "E" if rfc else "P"
    return R(b"200 ok")

def get(mode, rfc, payload="g11.20000", end="c", main=150, path=b"SECRETPATH03.bin"):
    g = [setup(mode, rfc)]
    if main < 400:
        g.append(",".join([R(b"%d go" % main), R(b"226 done"), "Dsend:%s::%s" % (payload, end)]))
    else:
        g.append(R(b"%d no" % main))
    return "get:%s:ok:-@" % H(path) + "/".join(g)

def put(mode, rfc, payload="g12.9000", path=b"SECRETPATH04.bin", verb="STOR", chop=None):
    g = [setup(mode, rfc), ",".join([R(b"150 go"), R(b"226 done"), "Drecv:-:c"])]
    return "put:%s:%s:%s%s@" % (verb, H(path), payload, "" if chop is None else ":-:" + chop) + "/".join(g)

def lst(mode, rfc, end="c"):
    g = [setup(mode, rfc), ",".join([R(b"150 go"), R(b"226 done"), "Dsend:h%s::%s" % (b"a.txt\r\nb.txt\r\n".hex(), end)])]
    return "list@" + "/".join(g)

def line(cfg, ops):
    return "e2e %s %s" % (cfg, " ".join(ops))
