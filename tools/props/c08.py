"""C08 - any server behaviour ends in a return or ftp_exception: no hang, crash or UB (control-reader part)."""
from rng import hx, hexlist
from props.ctlgen import *
import props.client_props as CP
import props.c11 as C11
import props.c05 as C05

DIALOGUES = [
    b"220 hi\r\n331 pw\r\n230 ok\r\n",
    b"220-a\r\n b\r\n220 c\r\n",
    b"150 ok\r\n226 done\r\n",
    b"220-first\r\n220-second\r\n 220 not yet\r\n220 end\r\n421 bye\r\n",
    b"229 Entering Extended Passive Mode (|||6446|)\r\n150 x\n226 y\n",
]

def gen(ctx):
    rng = ctx["rng"]; tier = ctx["tier"]
    # close / error injected at every byte position of the dialogues
    for d in DIALOGUES:
        for pos in range(len(d) + 1):
            for fin in ("eof", "err"):
                yield "recv 6 %s %s" % (fin, hexlist([d[:pos]] if pos else []))
                if pos > 2:
                    yield "recv 6 %s %s" % (fin, hexlist([d[:pos // 2], d[pos // 2:pos]]))
    ctx["scopes"].append("end-of-file and I/O error injected at every byte position of %d dialogues" % len(DIALOGUES))
    # every segmentation of short hostile streams
    for s in (b"220-a\r\n", b"2\r\n", b"\r\n\r\n", b"220-\n220", b"99999 x\r\n", b"abc\r\n", b"220-a\r220 b\r", b"\n\n\n", b"421 \r\n421 \r\n"):
        for parts in all_cuts(s):
            yield "recv 4 eof %s" % hexlist(parts)
    # over-long lines
    for n in (8190, 8191, 8192, 8193, 9000, 20000):
        for tail in (b"", b"\r\n", b"\r", b"\n"):
            body = b"220 " + b"a" * (n - 4)
            yield "recv 3 eof %s" % hexlist([body + tail + b"230 ok\r\n"])
            yield "recv 3 eof %s" % hexlist([body[:5000], body[5000:] + tail])
            yield "recv 3 eof %s" % hexlist([b"220-x\r\n" + body + tail + b"220 end\r\n"])
    # over-long lines whose first bytes look like format directives (they end up in error messages)
    for pre in (b"220 100% of quota", b"200 %s%s%n", b"211-load: 7%x", b"%", b"220 %1% %2% %3%", b"220 %|1$s| %d {} {0}"):
        for n in (8193, 9000):
            yield "recv 3 eof %s" % hexlist([pre + b"a" * (n - len(pre))])
            yield "recv 3 eof %s" % hexlist([b"211-x\r\n" + pre + b"a" * (n - len(pre)) + b"\r\n211 end\r\n"])
        yield "recv 3 eof %s" % hexlist([pre + b"\r\n"])
        yield "recv 3 eof %s" % hexlist([pre])
    n = 5000 if tier == "quick" else 200000
    for i in range(n):
        r = i % 3
        if r == 0:
            s = rng.bytes(rng.range(0, 60), alphabet=b"0123456789- \r\n\r\nab") if rng.chance(3, 4) else rng.bytes(rng.range(0, 200))
        elif r == 1:
            s = b"".join(random_wf_reply(rng) for _ in range(rng.range(1, 4)))
            s = bytearray(s)
            for _ in range(rng.range(1, 4)):
                if not s: break
                j = rng.below(len(s)); m = rng.below(4)
                if m == 0: s[j] = rng.below(256)
                elif m == 1: del s[j]
                elif m == 2: s.insert(j, rng.choice(b"\r\n- 2"))
                else: s = s[:j]
            s = bytes(s)
        else:
            s = b"".join(random_wf_reply(rng) for _ in range(rng.range(1, 4)))
            s = s[:rng.below(len(s) + 1)]
        yield "recv %d %s %s" % (rng.range(1, 6), rng.choice(["eof", "err"]), hexlist(random_cuts(rng, s)))

def gen_client(ctx):
    """client-level fault histories (peer close / reset during data transfer, failing sink / source, unreachable passive
    endpoints, garbage replies, 421) - only the outcome class is judged here"""
    for l in CP.gen_c17(ctx):
        yield l.replace("prop=C17", "prop=C08")
    for l in CP.gen_c13(ctx):
        yield l.replace("prop=C13", "prop=C08")

def gen_e2e(ctx):
    """TLS handshake failures, refused AUTH/PBSZ/PROT, truncated TLS data streams over real sockets; the control connection
    dropped (with and without TLS close-notify being possible) at every point of single- and multi-line replies"""
    from props.e2egen import cfg_str, connect, line as eline, R
    for l in C11.gen(ctx):
        yield l.replace("prop=C11", "prop=C08")
    partials = [b"", b"2", b"200", b"200 o", b"200 ok\r", b"211-status\r\n", b"211-status\r\n line one\r\n", b"211-status\r\n line one\r\n211", b"211-a\r\n211-b\r\n211 en"]
    for ver in (13, 12):
        for tls in (1, 0):
            c = cfg_str(ver=ver, tls=tls, prop="C08", verify="none")
            for part in partials:
                for drop in ("X", "R"):
                    grp = ("r" + part.hex() + "," if part else "") + drop
                    yield eline(c, [connect(tls=bool(tls)), "noop@" + grp, "isconn", "disc:0", connect(tls=bool(tls)), "noop@" + R(b"200 ok")])
    ctx["scopes"].append("e2e: control connection closed / reset by the server after each of %d partial single- and multi-line replies x TLS 1.2 / 1.3 / plain" % len(partials))
    # calls on a connection the server has ended (421 closes it inside the library; a drop / reset is noticed by the next
    # call): every kind of call in every data-connection method must end in a return or an ftp_exception - also the ones
    # that ask the dead socket for its addresses before they send anything (active-mode set-up, EPSV)
    from props.e2egen import get, put, lst
    for tls in (0, 1):
        for mode in "pa":
            for rfc in (0, 1):
                # (a connection the server dropped without a 421 is left out: whether the next write still succeeds is a race)
                for end in (R(b"421 closing") + ",X", R(b"421-bye\r\n421 closing")):
                    c = cfg_str(mode=mode, rfc=rfc, ver=13, tls=tls, prop="C08", verify="none")
                    yield eline(c, [connect(tls=bool(tls)), "noop@" + end, get(mode, rfc), lst(mode, rfc), put(mode, rfc), "noop@" + R(b"200 ok"), "isconn", "disc:0"])
    ctx["scopes"].append("e2e: download / listing / upload / simple call after the server ended the control connection (421, multi-line 421) x four methods x plain / TLS")

PROP = {
    "id": "C08",
    "stages": [{"name": "ctl", "target": "h_ctl", "gen": gen},
               {"name": "ctl-asan", "target": "h_ctl", "sanitize": True, "gen": gen},
               {"name": "ascii-asan", "target": "h_pure", "sanitize": True, "gen": C05.gen_asan},
               {"name": "client", "target": "h_client", "gen": gen_client, "shard": 12},
               {"name": "client-asan", "target": "h_client", "sanitize": True, "gen": gen_client, "shard": 12},
               {"name": "e2e", "target": "h_e2e", "gen": gen_e2e, "shard": 6},
               {"name": "e2e-asan", "target": "h_e2e", "sanitize": True, "gen": gen_e2e, "shard": 6}],
    "trivial_tags": [],
    "rule": "real control_connection::recv over the in-memory transport on arbitrary / mutated / truncated server output with end-of-file or "
            "an I/O error at every position, every segmentation of short hostile streams, over-long lines; each outcome classified "
            "(reply / ftp_exception / other exception / livelock detector / sanitizer abort); second stage = same under ASan+UBSan; the client-level and end-to-end fault histories (peer close / reset during transfers, failing streams, TLS failures) also run under ASan+UBSan. "
            "distinct = distinct scenario lines; all are non-trivial (each contains server bytes or an injected fault).",
    "assumptions": ["memory safety / UB / exception types are checked dynamically (ASan/UBSan build, catch classification), not proved",
                    "silent peers are outside the property (no timeouts by design)"],
}
