"""C09 - one command line per protocol step; caller text cannot inject commands (pure part: make_command)."""
from props.client_props import gen_c09_client
from rng import hx
import itertools

VERBS = [b"CWD", b"DELE", b"MKD", b"RMD", b"SIZE", b"MDTM", b"STAT", b"HELP", b"SITE", b"USER", b"PASS", b"RNFR", b"RNTO",
         b"RETR", b"STOR", b"STOU", b"APPE", b"LIST", b"NLST"]

def gen_pure(ctx):
    rng = ctx["rng"]; tier = ctx["tier"]
    L = 4 if tier == "quick" else 5
    for v in (b"DELE", b"USER", b"SITE"):
        yield "mkcmd %s -" % hx(v)
        for k in range(0, L + 1):
            for t in itertools.product(b"a\r\n \x00\xff", repeat=k):
                yield "mkcmd %s %s" % (hx(v), hx(bytes(t)))
    ctx["scopes"].append("make_command: verbs {DELE,USER,SITE} x every argument over {a,CR,LF,SP,NUL,0xFF} up to length %d, and no argument" % L)
    inj = [b"x\r\nDELE y", b"x\nQUIT", b"x\rQUIT", b"\r\n", b"\n", b"\r", b"a\r\n", b"\r\nb", b"a\r\nb\r\nc", b"x\r\nPASS secret"]
    for v in VERBS:
        yield "mkcmd %s -" % hx(v)
        for a in inj:
            yield "mkcmd %s %s" % (hx(v), hx(a))
    n = 4000 if tier == "quick" else 100000
    for _ in range(n):
        v = rng.choice(VERBS)
        ln = rng.choice([0, 1, 2, 5, 20, 300])
        a = rng.bytes(ln)
        if rng.chance(1, 3):
            a = bytes(c for c in a if c not in (10, 13))
        yield "mkcmd %s %s" % (hx(v), hx(a))

PROP = {
    "id": "C09",
    "stages": [{"name": "pure", "target": "h_pure", "gen": gen_pure},
               {"name": "client", "target": "h_client", "gen": gen_c09_client, "shard": 12}],
    "trivial_tags": ["noarg"],
    "rule": "client::make_command on every verb x argument of the stated exhaustive alphabet, injection strings and random full-range byte "
            "strings; non-trivial = an argument is present; distinct = distinct (verb, argument).",
    "assumptions": [],
}
