"""C01 - control replies are framed exactly, independent of network segmentation."""
from rng import hx, hexlist
from props.ctlgen import *

def gen(ctx):
    rng = ctx["rng"]; tier = ctx["tier"]
    L = 11 if tier == "quick" else 14
    small = small_replies()
    streams = set()
    for a in small:
        if len(a) <= L: streams.add((a, 1))
        for b in small:
            if len(a) + len(b) <= L: streams.add((a + b, 2))
    for s, k in sorted(streams):
        for parts in all_cuts(s):
            yield "recvwf %d eof %s" % (k + 1, hexlist(parts))
    ctx["scopes"].append("every stream of <= 2 replies of the small grammar (codes 150/226, texts ''/'a', single- and multi-line with middle lines '', 'a', '2', 'ddd-', '226', ' x'; CR LF and LF terminators) of length <= %d x all 2^(n-1) cut sets" % L)
    # directed: the classic cut between CR and LF of a final line, back-to-back 150/226
    for parts in ([b"150 ok\r", b"\n226 done\r\n"], [b"150 ok\r", b"\n", b"226 done\r\n"], [b"150 ok\r\n226 done\r", b"\n"],
                  [b"220-a\r", b"\n220 b\r", b"\n230 c\r\n"], [b"150 ok\r\n", b"226 done\r\n"], [b"1", b"5", b"0", b" ", b"\r", b"\n"]):
        yield "recvwf %d eof %s" % (4, hexlist(parts))
    # directed: middle lines that begin with the reply's own code but are not closing lines (the code alone, the code followed by
    # TAB / VT / FF / another character / '-'), alone and combined, both terminators, whole and cut everywhere
    for code in (150, 226, 211):
        c = b"%03d" % code
        mids_all = [c, c + b"\t", c + b"\tx", c + b"\x0b", c + b"\x0c", c + b"-", c + b"x", b" " + c + b" x", c[:2], c + c + b" "]
        for term in (b"\r\n", b"\n"):
            for m in mids_all:
                s = enc_reply(code, [b"a", m, b"z"], [term] * 3) + enc_reply(200, [b"next"], [term])
                yield "recvwf 3 eof %s" % hexlist([s])
                for i in range(1, len(s)):
                    yield "recvwf 3 eof %s" % hexlist([s[:i], s[i:]])
            s = enc_reply(code, [b"a"] + mids_all + [b"z"], [term] * (len(mids_all) + 2)) + enc_reply(200, [b"next"], [term])
            yield "recvwf 3 eof %s" % hexlist([s])
            yield "recvwf 3 eof %s" % hexlist([s[i:i + 1] for i in range(len(s))])
    ctx["scopes"].append("multi-line replies whose middle lines begin with the reply's own code without being closing lines (code alone, code + TAB / VT / FF / CR / '-' / letter), whole and with every single cut")
    # replies that are long as a whole while every line is short (a STAT of a big directory, a long banner): the 8192-byte
    # limit is per line, not per reply
    for nl, ll in ((120, 70), (160, 70), (400, 40), (30, 300), (9, 1000), (3, 8000)):
        for term in (b"\r\n", b"\n"):
            mids = [(b"-rw-r--r-- 1 owner group %6d Jan 01 00:00 file-%04d.dat" % (k * 37, k)).ljust(ll, b".")[:ll] for k in range(nl)]
            s = enc_reply(211, [b"Status of /pub"] + mids + [b"End of status"], [term] * (nl + 2)) + enc_reply(200, [b"next"], [term])
            yield "recvwf 3 eof %s" % hexlist([s])
            yield "recvwf 3 eof %s" % hexlist([s[i:i + 1460] for i in range(0, len(s), 1460)])
            yield "recvwf 3 eof %s" % hexlist([s[i:i + 8192] for i in range(0, len(s), 8192)])
    ctx["scopes"].append("multi-line replies of 8 - 24 KiB in total whose lines are all short (120 - 400 lines), whole and in 1460- / 8192-byte segments")
    n = 4000 if tier == "quick" else 150000
    for i in range(n):
        k = rng.range(1, 5)
        big = rng.chance(1, 25)
        s = b"".join(random_wf_reply(rng, big=big and j == 0) for j in range(k))
        parts = random_cuts(rng, s)
        yield "recvwf %d %s %s" % (k + 1, rng.choice(["eof", "err"]), hexlist(parts))

PROP = {
    "id": "C01",
    "stages": [{"name": "ctl", "target": "h_ctl", "gen": gen}],
    "trivial_tags": ["wf-whole"],
    "rule": "real control_connection::recv over an in-memory transport (real match_eol + boost::asio::read_until) fed the encoded replies in the "
            "chosen chunks; the recorded read sizes drive the Lean model; monitor = reference decoder of the complete stream. Exhaustive small "
            "grammar x all cut sets, directed CR|LF cuts, random replies (incl. lines of 8150-8190 bytes, middle lines that start with digits / "
            "another code / same code + '-') with cuts biased to 'right after a CR'. Non-trivial = the stream is cut at least once.",
    "assumptions": ["boost::asio::read_until on a dynamic_buffer(max 8192) behaves as transcribed in Model/Reader.lean (exercised, not proved)"],
}
