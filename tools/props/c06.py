"""C06 - data connections go to / are advertised at exactly the negotiated endpoint (pure part: parse 227/229, format PORT/EPRT)."""
from props.client_props import gen_c06_client
from rng import hx

PRE = b"229 Entering Extended Passive Mode "
PRE7 = b"227 Entering Passive Mode "

def gen_pure(ctx):
    rng = ctx["rng"]; tier = ctx["tier"]
    # --- EPSV
    for p in range(65536):
        yield "epsv " + hx(PRE + b"(|||%d|)" % p)
    for p in list(range(65536, 65600)) + [70000, 99999, 100000, 2**32, 2**32 + 21, 2**64, 2**64 + 21, 10**30]:
        yield "epsv " + hx(PRE + b"(|||%d|)" % p)
    # numbers that are in range only modulo a power of two: 2^k + v for every k in 8..80 and small / port-like v, with and
    # without leading zeros (a wrapped accumulator would accept them)
    WRAPS = [2**k + v for k in (8, 16, 24, 31, 32, 33, 48, 63, 64, 65, 72, 80) for v in (0, 1, 5, 21, 255, 2124, 6446, 65535)] + \
            [18446744073709551620 + v for v in range(0, 60, 3)] + [18446744073709553740, 18446744073709551743, 36893488147419103232 + 2124]
    for n in WRAPS:
        yield "epsv " + hx(PRE + b"(|||%d|)" % n)
        yield "epsv " + hx(PRE + b"(|||000%d|)" % n)
        for pos in range(6):
            f = [b"127", b"0", b"0", b"1", b"8", b"76"]; f[pos] = b"%d" % n
            yield "pasv " + hx(PRE7 + b"(" + b",".join(f) + b")")
    ctx["scopes"].append("229 replies: all 65536 ports, values above the range; 227 / 229 fields equal to 2^k + v (k up to 80) in every position")
    for d in range(0, 256):
        dd = bytes([d])
        if d in (10, 13):
            continue
        yield "epsv " + hx(PRE + b"(" + dd * 3 + b"6446" + dd + b")")
        yield "epsv " + hx(PRE + b"(" + dd * 3 + b"6446" + dd + b").")
        for pos in range(4):
            ds = [dd, dd, dd, dd]; ds[pos] = b"|" if d != 124 else b"!"
            yield "epsv " + hx(PRE + b"(" + ds[0] + ds[1] + ds[2] + b"6446" + ds[3] + b")")
    ctx["scopes"].append("229 replies: every delimiter byte 0..255 (except CR/LF) and every single mismatching delimiter")
    good = b"(|||6446|)"
    for i in range(len(good) + 1):
        yield "epsv " + hx(PRE + good[:i] + good[i + 1:])
        for ch in b"|(0)9 a":
            yield "epsv " + hx(PRE + good[:i] + bytes([ch]) + good[i:])
            yield "epsv " + hx(PRE + good[:i] + bytes([ch]) + good[i + 1:])
    for t in (b"", b"229", b"229 ()", b"229 (|||)", b"229 (||||)", b"229 (|||||)", b"229 )(", b"229 (|||1|", b"229 |||1|)",
              b"229 (|||1|)(|||2|)", b"229 ((|||1|))", b"229 (|||1|) (x)", b"229 ok (||6446|)", b"229 ok (abc6446x)",
              b"229 ok (aaa6446a)", b"229 (|||065535|)", b"229 (|||0|)", b"229 (||| 1|)", b"229 (|||+1|)", b"229 (|||1 |)",
              b"229 (1116446 1)", b"229 (11164461)"):
        yield "epsv " + hx(t)
    # --- PASV
    R = 300 if tier == "quick" else 520
    for p1 in range(0, R + 1):
        for p2 in range(0, R + 1):
            yield "pasv " + hx(PRE7 + b"(127,0,0,1,%d,%d)" % (p1, p2))
    ctx["scopes"].append("227 replies: all (p1,p2) in [0,%d]^2 (covers all 65536 ports and out-of-range fields)" % R)
    HS = [b"0", b"1", b"127", b"255", b"256", b"999", b"::ffff:1", b"", b" 1", b"+1", b"1 ", b"01", b"001", b"0001", b"-1", b"1.2", b"a", b"65536", b"4294967297"]
    for pos in range(6):
        for h in HS:
            f = [b"10", b"20", b"30", b"40", b"4", b"5"]; f[pos] = h
            yield "pasv " + hx(PRE7 + b"(" + b",".join(f) + b")")
    good = b"(1,2,3,4,5,6)"
    for i in range(len(good) + 1):
        yield "pasv " + hx(PRE7 + good[:i] + good[i + 1:])
        for ch in b",(0)9 a|":
            yield "pasv " + hx(PRE7 + good[:i] + bytes([ch]) + good[i:])
            yield "pasv " + hx(PRE7 + good[:i] + bytes([ch]) + good[i + 1:])
    for t in (b"", b"227", b"227 ()", b"227 (,,,,,)", b"227 (1,2,3,4,5)", b"227 (1,2,3,4,5,6,7)", b"227 (1,2,3,4,5,6,)", b"227 (,1,2,3,4,5,6)",
              b"227 (1,,2,3,4,5)", b"227 1,2,3,4,5,6", b"227 (1,2,3,4,5,6", b"227 1,2,3,4,5,6)", b"227 )1,2,3,4,5,6(", b"227 (x) (1,2,3,4,5,6)",
              b"227 (1,2,3,4,5,6) (x)", b"227 =1,2,3,4,5,6", b"227 (127,0,0,1,255,255)", b"227 (0,0,0,0,0,0)", b"227 (255,255,255,255,255,255)"):
        yield "pasv " + hx(t)
    n = 3000 if tier == "quick" else 80000
    for _ in range(n):
        pre = rng.bytes(rng.range(0, 30), alphabet=b"abc =-.,|0123456789" + (b"()" if rng.chance(1, 6) else b""))
        post = rng.bytes(rng.range(0, 6), alphabet=b". ab" + (b"()" if rng.chance(1, 6) else b""))
        if rng.chance(1, 2):
            d = bytes([rng.range(33, 126)]) if rng.chance(5, 6) else bytes([rng.below(256)])
            port = str(rng.choice([rng.below(65536), rng.below(65536), rng.range(65536, 200000), rng.below(10)])).encode()
            if rng.chance(1, 8): port = b"0" * rng.range(1, 3) + port
            yield "epsv " + hx(b"229 " + pre + b"(" + d * 3 + port + d + b")" + post)
        else:
            f = [str(rng.choice([rng.below(256), rng.below(256), rng.below(256), rng.range(256, 70000)])).encode() for _ in range(6)]
            if rng.chance(1, 10): f.append(b"1")
            if rng.chance(1, 10): f.pop()
            yield "pasv " + hx(b"227 " + pre + b"(" + b",".join(f) + b")" + post)
    # --- PORT / EPRT
    for p in range(65536):
        yield "port 4 %s %d" % (hx(b"127.0.0.1"), p)
        yield "eprt 4 %s %d" % (hx(b"127.0.0.1"), p)
    ctx["scopes"].append("PORT/EPRT: all 65536 ports (127.0.0.1)")
    V6 = [b"::1", b"::", b"fe80::1", b"2001:db8::ff00:42:8329", b"::ffff:1.2.3.4"]
    for a in V6:
        for p in (0, 1, 255, 256, 50000, 65535):
            yield "port 6 %s %d" % (hx(a), p)
            yield "eprt 6 %s %d" % (hx(a), p)
    for _ in range(n):
        a = b"%d.%d.%d.%d" % tuple(rng.choice([0, 1, 9, 10, 99, 100, 127, 199, 200, 255, rng.below(256)]) for _ in range(4))
        p = rng.below(65536)
        yield "%s 4 %s %d" % (rng.choice(["port", "eprt"]), hx(a), p)


def gen_pure_locale(ctx):
    """PORT / EPRT formatting (and the 227 / 229 parsers) in a process whose global C++ locale groups digits (VERIF_LOCALE=group)"""
    rng = ctx["rng"]
    for p in list(range(0, 65536, 97)) + [999, 1000, 1001, 9999, 10000, 38365, 65535]:
        yield "port 4 %s %d" % (hx(b"127.0.0.1"), p)
        yield "eprt 4 %s %d" % (hx(b"127.0.0.1"), p)
        yield "epsv " + hx(b"229 ok (|||%d|)" % p)
        yield "pasv " + hx(b"227 ok (127,0,0,1,%d,%d)" % (p // 256, p % 256))
    for a in (b"::1", b"2001:db8::ff00:42:8329"):
        for p in (0, 1000, 50000, 65535):
            yield "eprt 6 %s %d" % (hx(a), p)
    ctx["scopes"].append("PORT / EPRT / 227 / 229 for every 97th port and the 4/5-digit borders under a global locale that groups digits")

from props.e2egen import *
from props.e2egen import line as eline

def gen_e2e(ctx):
    """real sockets, several loopback addresses: the data connection must go to the address the CURRENT control connection was
    opened to - also after a session that ended without disconnect (server dropped it, the call threw) and a connect to
    another address"""
    rng = ctx["rng"]
    noop = "noop@" + R(b"200 ok")
    def con(host, **kw):
        return connect(tls=False, **kw).replace("connect:-:-", "connect:%s:-" % H(host), 1)
    for mode in "pa":
        for rfc in (0, 1):
            for a1, a2 in ((b"127.0.0.1", b"127.0.0.2"), (b"127.0.0.2", b"127.0.0.1"), (b"127.0.0.3", b"127.0.0.3")):
                c = cfg_str(mode=mode, rfc=rfc, tls=0, prop="C06")
                # ordinary: transfer, disconnect, connect elsewhere, transfer
                yield eline(c, [con(a1), get(mode, rfc), lst(mode, rfc), "disc:1@" + R(b"221 bye"), con(a2), get(mode, rfc), put(mode, rfc)])
                # the first session is dropped by the server; the application reconnects without a successful disconnect
                yield eline(c, [con(a1), lst(mode, rfc), "noop@X", con(a2), lst(mode, rfc), get(mode, rfc)])
                yield eline(c, [con(a1), get(mode, rfc), "noop@X", "disc:1@", con(a2), get(mode, rfc)])
                yield eline(c, [con(a1), get(mode, rfc), "noop@" + R(b"421 bye") + ",X", con(a2), put(mode, rfc), lst(mode, rfc)])
    ctx["scopes"].append("four methods x control connections to 127.0.0.1 / .2 / .3 in sequence, with the first session ended by disconnect, by a dropped connection without disconnect, by a throwing graceful disconnect, by 421")

PROP = {
    "id": "C06",
    "stages": [{"name": "pure", "target": "h_pure", "gen": gen_pure},
               {"name": "pure-locale", "target": "h_pure", "gen": gen_pure_locale, "env": {"VERIF_LOCALE": "group"}},
               {"name": "client", "target": "h_client", "gen": gen_c06_client, "shard": 12},
               {"name": "e2e", "target": "h_e2e", "gen": gen_e2e, "shard": 4}],
    "trivial_tags": [],
    "rule": "real try_parse_epsv_reply / try_parse_pasv_reply / make_port_command / make_eprt_command (private statics, harness built with "
            "-fno-access-control) on the stated exhaustive scopes, single-character edits of well-formed replies, malformed field lists and "
            "random replies with random surrounding text; monitor = independent reference readers (Spec.epsvOf / pasvOf) and server-side "
            "decoders (Spec.decodePortArg / decodeEprtArg). distinct = distinct lines; all are non-trivial.",
    "assumptions": ["boost::asio::ip::address::to_string / make_address behave as documented"],
}
