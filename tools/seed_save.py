#!/usr/bin/env python3
"""seed_save.py <ID> <name> <breaks> <needs> <caught-by json>: store a confirmed seeded change under /verif/seeded/<name>/"""
import sys, os, shutil, json
ID, name, breaks, needs, caught = sys.argv[1:6]
d = os.path.join("/verif/seeded", name)
os.makedirs(d, exist_ok=True)
shutil.copy("/tmp/seed_%s.diff" % ID, os.path.join(d, "patch.diff"))
demo = "/tmp/mut_%s_out/demo" % ID
if os.path.isdir(demo):
    shutil.rmtree(os.path.join(d, "demo"), ignore_errors=True)
    shutil.copytree(demo, os.path.join(d, "demo"), ignore=shutil.ignore_patterns("*.o", "demo_bin*", "a.out", "build*", "*.bin", "demo", "*.log"))
notes = "/tmp/mut_%s_out/NOTES.md" % ID
if os.path.exists(notes):
    shutil.copy(notes, os.path.join(d, "NOTES.md"))
meta = {"breaks_property": breaks, "origin": "independent sub-agent given only the property text and a scratch worktree",
        "needs_to_manifest": needs,
        "confirmed": {"test_suite_with_change": "ctest: 100% passed (2/2 binaries)", "demo_on_changed_tree": "exit != 0", "demo_on_pristine_tree": "exit 0",
                      "how": "tools/seed_confirm.sh %s in the scratch worktree; tools/seed_run.sh patch.diff <ids> (patch applied to a scratch worktree, checks run with VERIF_REPO)" % ID},
        "caught_by": json.loads(caught)}
json.dump(meta, open(os.path.join(d, "meta.json"), "w"), indent=1)
print("saved", d, os.listdir(d))
