#!/usr/bin/env python3
"""Regenerates the table of seeded changes in DESIGN.md (between the SEEDED markers) from seeded/*/meta.json."""
import json, os, glob, re
ROOT = os.path.dirname(os.path.dirname(os.path.abspath(__file__)))
rows = ["| seeded change (`seeded/<name>/`) | breaks | needs, to manifest | caught by |", "|---|---|---|---|"]
for d in sorted(glob.glob(os.path.join(ROOT, "seeded", "*"))):
    m = os.path.join(d, "meta.json")
    if not os.path.exists(m) or os.path.basename(d) == "reverts":
        continue
    j = json.load(open(m))
    caught = "; ".join("%s: %s" % (k, v) for k, v in j.get("caught_by", {}).items())
    rows.append("| %s | %s | %s | %s |" % (os.path.basename(d), j["breaks_property"], j["needs_to_manifest"], caught))
rv = os.path.join(ROOT, "seeded", "reverts", "meta.json")
if os.path.exists(rv):
    j = json.load(open(rv))
    rows.append("| reverts/revert_F1..F13.diff | the property of each fix | the failing input of section 0.1 | " + "; ".join("%s: %s" % kv for kv in j["results"].items()) + " |")
table = "\n".join(rows)
p = os.path.join(ROOT, "DESIGN.md")
s = open(p).read()
if "SEEDED_TABLE_PLACEHOLDER" in s:
    s = s.replace("SEEDED_TABLE_PLACEHOLDER", "<!-- SEEDED-BEGIN -->\n<!-- SEEDED-END -->")
s = re.sub(r"<!-- SEEDED-BEGIN -->.*?<!-- SEEDED-END -->", "<!-- SEEDED-BEGIN -->\n" + table + "\n<!-- SEEDED-END -->", s, flags=re.S)
open(p, "w").write(s)
print(len(rows) - 2, "rows")
