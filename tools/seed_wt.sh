#!/bin/bash
# create a scratch worktree of /repo with a configured + built _build for a seeding agent: /tmp/mut_<ID> (and /tmp/mut_<ID>_out for its results)
ID=$1; WT=/tmp/mut_$ID
git -C /repo worktree add -q --detach $WT HEAD || exit 2
mkdir -p ${WT}_out/demo
cmake -G Ninja -S $WT -B $WT/_build -DCMAKE_BUILD_TYPE=RelWithDebInfo -DLIBFTP_BUILD_TEST=ON -DLIBFTP_BUILD_CMDLINE_CLIENT=ON -DLIBFTP_BUILD_EXAMPLE=ON \
  -DFETCHCONTENT_SOURCE_DIR_GOOGLETEST=/usr/src/googletest -DFETCHCONTENT_FULLY_DISCONNECTED=ON >/dev/null 2>&1 || { echo "configure failed"; exit 2; }
cmake --build $WT/_build -j8 >/dev/null 2>&1 || { echo "build failed"; exit 2; }
ctest --test-dir $WT/_build -j8 --timeout 900 2>&1 | tail -2
python3 - "$ID" <<'P'
import json, sys
pid = sys.argv[1][:3]
for l in open('/verif/properties.jsonl'):
    d = json.loads(l)
    if d['id'] == pid:
        open('/tmp/mut_%s_out/PROPERTY.txt' % sys.argv[1], 'w').write(
            "%s\n\nSTATEMENT: %s\n\nQUANTIFIER: %s\n" % (d['title'], d['statement'], d['quantifier']['text']))
P
