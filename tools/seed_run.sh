#!/bin/bash
# apply a seeded patch to a scratch worktree of /repo, run the given checks (quick) against it (VERIF_REPO), remove the worktree.
# /repo itself is not touched, so checks running elsewhere against /repo are not disturbed.   usage: seed_run.sh <patch> <id>...
P=$(readlink -f "$1"); shift
WT=$(mktemp -d /tmp/seedrun.XXXXXX); rmdir $WT
git -C /repo worktree add -q --detach $WT HEAD || exit 2
trap 'git -C /repo worktree remove --force $WT; git -C /repo worktree prune' EXIT
( cd $WT && git apply "$P" ) || { echo "patch does not apply"; exit 2; }
cd "$(dirname "$0")/.."
for id in "$@"; do
  out=$(VERIF_REPO=$WT timeout 1500 python3 tools/vcheck.py $id ${TIER:-quick} 2>&1); rc=$?
  echo "$id exit=$rc :: $(echo "$out" | grep -E '^VIOLATION' | head -1) :: $(echo "$out" | tail -1)"
done
