#!/bin/bash
# apply a seeded patch to /repo, run the given checks (quick), undo the patch. usage: seed_run.sh <patch> <id>...
P=$1; shift
cd /repo && git apply $P || { echo "patch does not apply"; exit 2; }
cd /verif
for id in "$@"; do
  out=$(timeout 1500 python3 tools/vcheck.py $id quick 2>&1); rc=$?
  echo "$id exit=$rc :: $(echo "$out" | grep -E '^VIOLATION' | head -1) :: $(echo "$out" | tail -1)"
done
cd /repo && git apply -R $P && git status --short | grep -v _build | head -3
