#!/bin/bash
# multi-seed sweep of registered checks on the current tree: every line must end in exit=0
cd "$(dirname "$0")/.."
python3 tools/vcheck.py --setup >/dev/null 2>&1
TIER=${2:-quick}
for seed in ${1:-1 2 3}; do
  for id in $(python3 -c "import json; print(' '.join(c['property_id'] for c in json.load(open('MANIFEST.json'))['checks']))"); do
    out=$(VERIF_SEED=$seed python3 tools/vcheck.py $id $TIER 2>&1); rc=$?
    echo "seed=$seed $id exit=$rc $(echo "$out" | tail -1)"
    if [ $rc -ne 0 ]; then echo "$out" | grep -E "VIOLATION|KNOWN" | head -3; fi
  done
done
