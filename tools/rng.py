"""SplitMix64: every random choice of every generator derives from one state seeded by VERIF_SEED."""
M = (1 << 64) - 1

class Rng:
    def __init__(self, seed):
        self.s = seed & M
    def next(self):
        self.s = (self.s + 0x9E3779B97F4A7C15) & M
        z = self.s
        z = ((z ^ (z >> 30)) * 0xBF58476D1CE4E5B9) & M
        z = ((z ^ (z >> 27)) * 0x94D049BB133111EB) & M
        return z ^ (z >> 31)
    def below(self, n):
        return self.next() % n if n > 0 else 0
    def range(self, lo, hi):           # inclusive
        return lo + self.below(hi - lo + 1)
    def chance(self, num, den):
        return self.below(den) < num
    def choice(self, seq):
        return seq[self.below(len(seq))]
    def bytes(self, n, alphabet=None):
        if alphabet is None:
            return bytes(self.below(256) for _ in range(n))
        return bytes(alphabet[self.below(len(alphabet))] for _ in range(n))
    def fork(self, tag):
        import hashlib
        h = hashlib.sha256(("%d:%s" % (self.s, tag)).encode()).digest()
        return Rng(int.from_bytes(h[:8], "little"))

def hx(b):
    if isinstance(b, str):
        b = b.encode("latin-1")
    return "x" + b.hex()

def hexlist(l):
    return ",".join(hx(b) for b in l) if l else "-"

def natlist(l):
    return ",".join(str(x) for x in l) if l else "-"
