#!/usr/bin/env python3
"""Proof audit: build the property's theorems, forbid sorry/axioms/native_decide, print the axioms of every theorem."""
import os, re, subprocess, json, fcntl, sys, tempfile, time

ROOT = os.path.dirname(os.path.dirname(os.path.abspath(__file__)))
LEAN = os.path.join(ROOT, "lean")
ALLOWED_AXIOMS = {"propext", "Classical.choice", "Quot.sound"}
FORBIDDEN = re.compile(r"\bsorry\b|\badmit\b|^\s*axiom\s|\bnative_decide\b|\bbv_decide\b|\bimplemented_by\b|\bunsafe\s|maxHeartbeats\s+0\b|\bextern\b", re.M)

def strip_comments(src):
    # remove block comments (nested) and line comments
    out = []; i = 0; depth = 0; n = len(src)
    while i < n:
        if src.startswith("/-", i):
            depth += 1; i += 2; continue
        if depth > 0 and src.startswith("-/", i):
            depth -= 1; i += 2; continue
        if depth == 0 and src.startswith("--", i):
            j = src.find("\n", i)
            i = n if j < 0 else j
            continue
        if depth == 0:
            out.append(src[i])
        elif src[i] == "\n":
            out.append("\n")
        i += 1
    return "".join(out)

def lean_files():
    r = []
    for d, _, fs in os.walk(os.path.join(LEAN, "Ftp")):
        for f in fs:
            if f.endswith(".lean"):
                r.append(os.path.join(d, f))
    return sorted(r)

def lake(args, timeout=3000):
    lock = open(os.path.join(LEAN, ".lake.verif.lock"), "w")
    fcntl.flock(lock, fcntl.LOCK_EX)
    try:
        return subprocess.run(["lake"] + args, cwd=LEAN, capture_output=True, text=True, timeout=timeout)
    finally:
        fcntl.flock(lock, fcntl.LOCK_UN); lock.close()

def build_driver():
    r = lake(["build", "ftpdriver"])
    if r.returncode != 0:
        raise RuntimeError("lake build ftpdriver failed:\n" + r.stdout[-3000:] + r.stderr[-3000:])
    return os.path.join(LEAN, ".lake", "build", "bin", "ftpdriver")

def prop_files(pid):
    """Props/<pid>.lean and its continuation files Props/<pid><letter>.lean (same namespace Ftp.Props.<pid>)"""
    d = os.path.join(LEAN, "Ftp", "Props")
    out = []
    for f in sorted(os.listdir(d)) if os.path.isdir(d) else []:
        if re.fullmatch(re.escape(pid) + r"[a-z]?\.lean", f):
            out.append(os.path.join(d, f))
    return out

def theorems_of(pid):
    names = []
    ns = "Ftp.Props." + pid
    for path in prop_files(pid):
        src = strip_comments(open(path).read())
        names += [ns + "." + n for n in re.findall(r"^\s*theorem\s+([A-Za-z0-9_'.]+)", src, re.M)]
    return os.path.join(LEAN, "Ftp", "Props", pid + ".lean"), names

def audit(pid, thorough=False):
    """Returns dict: ok, obligations, discharged, theorems {name: [axioms]}, problems [str], checker_cmd."""
    res = {"ok": False, "obligations": 0, "discharged": 0, "theorems": {}, "problems": [], "examples": 0,
           "checker_cmd": "cd lean && lake build Ftp.Props.%s && lake env lean <generated #print axioms file>%s"
                          % (pid, " && lake env leanchecker Ftp.Props.%s" % pid if thorough else "")}
    # translator: regenerate the tables / constants the model shares with the source (Ftp/Generated/SourceFacts.lean) from
    # the current tree; the `*s.lean` theorems of the properties that depend on them are rebuilt below
    try:
        import gen_source_facts
        _, _, errs = gen_source_facts.generate()
        res["problems"] += gen_source_facts.problems_for(pid, errs)
    except Exception as e:
        res["problems"].append("translator tools/gen_source_facts.py failed: %s" % e)
    req_path = os.path.join(ROOT, "tools", "required_theorems.json")
    required = json.load(open(req_path)).get(pid, []) if os.path.exists(req_path) else []
    path, names = theorems_of(pid)
    res["obligations"] = max(len(names), len(required))
    if not names:
        res["problems"].append("no theorems found in " + path)
        return res
    for rq in required:
        if "Ftp.Props.%s.%s" % (pid, rq) not in names:
            res["problems"].append("required theorem missing: " + rq)
    # forbidden constructs anywhere in the library
    for f in lean_files():
        m = FORBIDDEN.search(strip_comments(open(f).read()))
        if m:
            res["problems"].append("forbidden construct %r in %s" % (m.group(0).strip(), os.path.relpath(f, ROOT)))
    modules = ["Ftp.Props." + os.path.basename(f)[:-5] for f in prop_files(pid)]
    r = lake(["build"] + modules)
    if r.returncode != 0:
        res["problems"].append("lake build Ftp.Props.%s failed: %s" % (pid, (r.stdout + r.stderr)[-1500:]))
        return res
    if "declaration uses 'sorry'" in r.stdout + r.stderr:
        res["problems"].append("a declaration uses sorry")
    res["examples"] = sum(len(re.findall(r"^\s*example\b", strip_comments(open(f).read()), re.M)) for f in prop_files(pid))
    with tempfile.NamedTemporaryFile("w", suffix=".lean", dir=os.path.join(ROOT, "build"), delete=False) as tf:
        for m in modules:
            tf.write("import %s\n" % m)
        for n in names:
            tf.write("#print axioms %s\n" % n)
        tmp = tf.name
    try:
        r = lake(["env", "lean", tmp])
    finally:
        os.unlink(tmp)
    out = r.stdout + r.stderr
    for n in names:
        m = re.search(r"'%s' depends on axioms: \[([^\]]*)\]" % re.escape(n), out, re.S)
        if m:
            ax = [a.strip() for a in m.group(1).replace("\n", " ").split(",") if a.strip()]
        elif re.search(r"'%s' does not depend on any axioms" % re.escape(n), out):
            ax = []
        else:
            res["problems"].append("no axiom report for " + n + ": " + out[-500:])
            continue
        res["theorems"][n] = ax
        bad = [a for a in ax if a not in ALLOWED_AXIOMS]
        if bad:
            res["problems"].append("%s depends on forbidden axioms %s" % (n, bad))
        else:
            res["discharged"] += 1
    if thorough:
        for m in modules:
            r = lake(["env", "leanchecker", m], timeout=3000)
            if r.returncode != 0:
                res["problems"].append("leanchecker failed on %s: %s" % (m, (r.stdout + r.stderr)[-800:]))
    if res["problems"]:
        res["discharged"] = min(res["discharged"], res["obligations"] - 1) if res["discharged"] >= res["obligations"] else res["discharged"]
    res["ok"] = not res["problems"] and res["discharged"] == res["obligations"]
    return res

if __name__ == "__main__":
    os.makedirs(os.path.join(ROOT, "build"), exist_ok=True)
    print(json.dumps(audit(sys.argv[1], len(sys.argv) > 2), indent=1))
