#!/usr/bin/env python3
"""replay_classes.py <property>: failure classes / stages of the newest replay file of that property (for seeded-change bookkeeping)"""
import json, glob, os, sys
ROOT = os.path.dirname(os.path.dirname(os.path.abspath(__file__)))
fs = sorted(glob.glob(os.path.join(ROOT, "replays", sys.argv[1], "*.json")), key=os.path.getmtime)
j = json.load(open(fs[-1]))
print(os.path.basename(fs[-1]), j.get("kind"))
for f in j.get("failures", []):
    print("  %-60s count=%s stage=%s" % (f.get("class"), f.get("count"), f.get("stage")))
    print("     ", (f.get("scenario") or "")[:300])
