#!/bin/bash
# confirm a seeded change produced in a scratch worktree: tests pass with it, demo fails with it and passes without it
ID=$1; WT=/tmp/mut_$ID; OUT=/tmp/mut_${ID}_out
cd $WT || exit 2
git diff > /tmp/seed_$ID.diff
[ -s /tmp/seed_$ID.diff ] || { echo "no change in worktree"; exit 2; }
echo "== test suite with the change"
(cmake --build _build -j16 >/dev/null 2>&1 && ctest --test-dir _build -j8 --timeout 900 2>&1 | tail -3)
echo "== demo on changed tree (expect non-zero)"
(cd $OUT/demo && timeout 600 bash run.sh $WT >/tmp/seed_${ID}_changed.log 2>&1; echo "exit=$?")
echo "== demo on pristine tree (expect 0)"
git apply -R /tmp/seed_$ID.diff
(cd $OUT/demo && timeout 600 bash run.sh $WT >/tmp/seed_${ID}_pristine.log 2>&1; echo "exit=$?")
git apply /tmp/seed_$ID.diff
