#!/usr/bin/env python3
"""Translator for the table-like parts of the code: regenerates lean/Ftp/Generated/SourceFacts.lean from /repo's current
working tree (VERIF_REPO).  The hand-written model states the same tables / constants; `Ftp/Props/*s.lean` prove them equal,
so a change of a table or constant in the source breaks a proof obligation of the property that depends on it.

Extracted (by regular expressions over the source text, after stripping comments):
  * app/cmdline/src/command_parser.cpp  - the chain `boost::iequals(str, "<verb>") ... return command::<name>;` in source order
  * src/reply.cpp                       - the thresholds of is_positive / is_negative / is_intermediate
  * src/control_connection.cpp          - the line-length limit passed to read_line
  * src/data_connection.cpp             - the sizes of the block buffers of recv and send
  * include/ftp/detail/ascii_*stream.hpp - default sizes of the converters' internal buffers
  * src/utils.cpp                       - (into Generated/UtilsFacts.lean) try_parse_uint8 / 16 / 32 TRANSLATED (limit type, cast type,
                                          result type as written)
  * src/client.cpp                      - (into Generated/ClientFacts.lean) the member functions whose body is exactly
                                          `make_command(<verb>[, <arg>])` + `process_command(command)` are TRANSLATED into
                                          programs of the model's monad; per member function the command literals it names
                                          and the reply codes it compares with, in source order; the four decisive codes
A construct the patterns do not recognise is an error (the check reports it as a broken tie), never a silent default.
"""
import os, re, sys

ROOT = os.path.dirname(os.path.dirname(os.path.abspath(__file__)))
REPO = os.environ.get("VERIF_REPO", "/repo")
OUT = os.path.join(ROOT, "lean", "Ftp", "Generated", "SourceFacts.lean")
OUT_CLIENT = os.path.join(ROOT, "lean", "Ftp", "Generated", "ClientFacts.lean")
OUT_UTILS = os.path.join(ROOT, "lean", "Ftp", "Generated", "UtilsFacts.lean")

class ExtractError(Exception):
    pass

def src(path):
    s = open(os.path.join(REPO, path), encoding="latin-1").read()
    s = re.sub(r"/\*.*?\*/", " ", s, flags=re.S)
    return re.sub(r"//[^\n]*", " ", s)

def one(pattern, text, what):
    m = re.findall(pattern, text, flags=re.S)
    if len(m) != 1:
        raise ExtractError("%s: expected exactly one match of %r, found %d" % (what, pattern, len(m)))
    return m[0]

def body_of(text, signature, what):
    i = text.find(signature)
    if i < 0:
        raise ExtractError("%s: %r not found" % (what, signature))
    j = text.index("{", i); depth = 0
    for k in range(j, len(text)):
        if text[k] == "{": depth += 1
        elif text[k] == "}":
            depth -= 1
            if depth == 0:
                return text[j:k + 1]
    raise ExtractError("%s: unbalanced braces" % what)


def member_functions(text, cls):
    """[(name, signature text, body text)] of every `cls::name(...) {...}` definition, in source order"""
    out = []
    for m in re.finditer(r"\b%s::(~?\w+)\s*\(" % re.escape(cls), text):
        i = m.end(); depth = 1
        while depth and i < len(text):
            if text[i] == "(": depth += 1
            elif text[i] == ")": depth -= 1
            i += 1
        sig = text[m.end():i - 1]
        j = i
        while j < len(text) and (text[j].isspace() or text.startswith("const", j) and not (text[j + 5].isalnum() or text[j + 5] == "_")):
            j += 5 if text.startswith("const", j) else 1
        if j < len(text) and text[j] == ":":          # constructor initialiser list
            j = text.index("{", j)
        if j >= len(text) or text[j] != "{":
            continue                                   # a call or a declaration, not a definition
        depth = 0
        for e in range(j, len(text)):
            if text[e] == "{": depth += 1
            elif text[e] == "}":
                depth -= 1
                if depth == 0:
                    out.append((m.group(1), sig, text[j:e + 1])); break
    return out

SIMPLE = re.compile(r'\{\s*(?:const\s+)?(?:std::string|auto)\s+(\w+)\s*=\s*make_command\s*\(\s*"([A-Z]+)"\s*(?:,\s*("[^"]*"|\w+)\s*)?\)\s*;\s*'
                    r'(?:return\s+process_command\s*\(\s*\1\s*\)\s*;|'
                    r'(?:const\s+)?(?:reply|auto)\s+(\w+)\s*=\s*process_command\s*\(\s*\1\s*\)\s*;\s*return\s+(file_size_reply|file_modified_time_reply)\s*\(\s*\4\s*\)\s*;)\s*\}\s*$')

def client_facts():
    """returns dict: simple [(fn, verb, argkind, argname, wrapper)], literals [(fn, [lit])], codes [(fn, [int])], and the decisive codes"""
    cl = src("src/client.cpp")
    fns = member_functions(cl, "client")
    if len(fns) < 40:
        raise ExtractError("client.cpp: only %d member function definitions recognised" % len(fns))
    simple = []; lits = {}; codes = {}; order = []
    for name, sig, body in fns:
        m = SIMPLE.match(body)
        if m:
            verb, arg, wrapper = m.group(2), m.group(3), m.group(5)
            if arg is None: kind, an = "none", ""
            elif arg.startswith('"'): kind, an = "lit", arg[1:-1]
            else:
                pm = re.search(r"([^,]*)\b%s\s*$" % re.escape(arg), [p for p in sig.split(",") if re.search(r"\b%s\s*$" % re.escape(arg), p.strip())][0].strip()) if any(re.search(r"\b%s\s*$" % re.escape(arg), p.strip()) for p in sig.split(",")) else None
                if pm is None:
                    raise ExtractError("client::%s: argument %s of make_command is not a parameter" % (name, arg))
                kind, an = ("opt" if "optional" in pm.group(1) else "req"), arg
            simple.append((name, verb, kind, an, wrapper or "reply"))
        l = re.findall(r'"([A-Z][A-Z 0-9]*)"', body)
        c = [int(x) for x in re.findall(r"get_code\s*\(\s*\)\s*==\s*(\d+)", body)]
        other = re.findall(r"get_code\s*\(\s*\)\s*(?:!=|<=|>=|<|>)\s*\d+|\d+\s*(?:==|!=|<=|>=|<|>)\s*\w+\.get_code", body)
        if other:
            raise ExtractError("client::%s: a reply-code comparison of an unrecognised form: %s" % (name, other[0]))
        if name in lits:
            if lits[name] != l or codes[name] != c:     # overloads must agree (the & / && pairs do)
                raise ExtractError("client::%s: overloads name different command literals / codes" % name)
        else:
            order.append(name); lits[name] = l; codes[name] = c
    def the_code(fn):
        if len(codes.get(fn, [])) != 1:
            raise ExtractError("client::%s: expected exactly one comparison get_code() == <n>, found %s" % (fn, codes.get(fn)))
        return codes[fn][0]
    return {"simple": simple, "literals": [(n, lits[n]) for n in order if lits[n]], "codes": [(n, codes[n]) for n in order if codes[n]],
            "greetingPreliminary": the_code("connect"), "renameToAfter": the_code("rename"),
            "loginPassAfter": the_code("process_login"), "abortSecondReplyAfter": the_code("process_abort")}

def render_client(cf, error):
    L = ["/-", "  GENERATED by tools/gen_source_facts.py from src/client.cpp on every run of a check - do not edit.",
         "  (1) every member function of ftp::client whose body is exactly `std::string command = make_command(VERB[, ARG]);` followed by",
         "      `return process_command(command);` (or the same with the reply wrapped into a typed reply), TRANSLATED into the model's monad;",
         "  (2) per member function, the command literals its body names and the reply codes it compares with `==`, in source order;",
         "  (3) the four decisive codes.  What the translator could not read is absent.", "-/", "import Ftp.Model.Client", "namespace Ftp.Generated", "open Ftp Ftp.Client", ""]
    if cf is None:
        L.append("-- not extracted: %s" % error.replace("\n", " ")[:300])
    else:
        for fn, verb, kind, an, wrapper in cf["simple"]:
            L.append("/-- `client::%s`: `make_command(\"%s\"%s)`, `process_command(command)`%s -/" % (fn, verb,
                     "" if kind == "none" else (', "%s"' % an if kind == "lit" else ", " + an), "" if wrapper == "reply" else ", result wrapped in `%s`" % wrapper))
            if kind == "none":
                L += ["def %s : M Reply := do" % fn, "  let command ← mkCmd \"%s\" none" % verb]
            elif kind == "lit":
                L += ["def %s : M Reply := do" % fn, "  let command ← mkCmd \"%s\" (some (str \"%s\"))" % (verb, an)]
            elif kind == "req":
                L += ["def %s (%s : Bytes) : M Reply := do" % (fn, an), "  let command ← mkCmd \"%s\" (some %s)" % (verb, an)]
            else:
                L += ["def %s (%s : Option Bytes) : M Reply := do" % (fn, an), "  let command ← mkCmd \"%s\" %s" % (verb, an)]
            L += ["  processCommand command", ""]
        L.append("/-- typed wrappers: which simple calls hand their reply to which typed-reply constructor -/")
        L.append("def typedWrappers : List (String × String) :=\n  [" + ", ".join('("%s", "%s")' % (fn, w) for fn, _, _, _, w in cf["simple"] if w != "reply") + "]\n")
        L.append("/-- command literals named in the body of each member function of ftp::client, in source order -/")
        L.append("def commandLiterals : List (String × List String) :=\n  [" + ",\n   ".join('("%s", [%s])' % (n, ", ".join('"%s"' % x for x in l)) for n, l in cf["literals"]) + "]\n")
        L.append("/-- reply codes compared with `get_code() == n` in the body of each member function, in source order -/")
        L.append("def comparedCodes : List (String × List Nat) :=\n  [" + ", ".join('("%s", [%s])' % (n, ", ".join(str(x) for x in c)) for n, c in cf["codes"]) + "]\n")
        for k in ("greetingPreliminary", "renameToAfter", "loginPassAfter", "abortSecondReplyAfter"):
            L.append("def %s : Nat := %d" % (k, cf[k]))
    L += ["", "end Ftp.Generated", ""]
    return "\n".join(L)


NARROW = re.compile(r'\{\s*std::uint64_t\s+(\w+)\s*;\s*if\s*\(\s*!\s*try_parse_uint64\s*\(\s*(\w+)\s*,\s*\1\s*\)\s*\)\s*return\s+false\s*;\s*'
                    r'if\s*\(\s*\1\s*>\s*std::numeric_limits\s*<\s*std::uint(\d+)_t\s*>\s*::\s*max\s*\(\s*\)\s*\)\s*return\s+false\s*;\s*'
                    r'(\w+)\s*=\s*static_cast\s*<\s*std::uint(\d+)_t\s*>\s*\(\s*\1\s*\)\s*;\s*return\s+true\s*;\s*\}\s*$')

def utils_facts():
    """the three narrowing parsers of src/utils.cpp, translated: (name, bits of the limit compared with, bits of the cast, bits of the result type)"""
    ut = src("src/utils.cpp")
    out = []
    for bits in (8, 16, 32):
        name = "try_parse_uint%d" % bits
        m = re.search(r"bool\s+%s\s*\(\s*std::string_view\s+(\w+)\s*,\s*std::uint(\d+)_t\s*&\s*(\w+)\s*\)" % name, ut)
        if not m:
            raise ExtractError("utils.cpp: signature of %s not recognised" % name)
        body = body_of(ut, m.group(0), name)
        b = NARROW.match(re.sub(r"\s+", " ", body))
        if not b or b.group(2) != m.group(1) or b.group(4) != m.group(3):
            raise ExtractError("utils.cpp: body of %s is not `parse 64 bits; compare with the limit; narrow`" % name)
        out.append((name, int(b.group(3)), int(b.group(5)), int(m.group(2))))
    return out

def render_utils(uf, error):
    L = ["/-", "  GENERATED by tools/gen_source_facts.py from src/utils.cpp on every run of a check - do not edit.",
         "  try_parse_uint8 / 16 / 32, TRANSLATED: parse 64 bits with the model's `parseU64`, refuse what exceeds",
         "  std::numeric_limits<T>::max() of the type written in the comparison, narrow with the static_cast that is written",
         "  (modulo 2^bits of the cast's type).  What the translator could not read is absent.", "-/", "import Ftp.Model.Utils", "namespace Ftp.Generated", "open Ftp", ""]
    if uf is None:
        L.append("-- not extracted: %s" % error.replace("\n", " ")[:300])
    else:
        for name, lim, cast, res in uf:
            L += ["/-- `%s`: limit `std::numeric_limits<std::uint%d_t>::max()`, `static_cast<std::uint%d_t>`, result type `std::uint%d_t` -/" % (name, lim, cast, res),
                  "def %s (str : Bytes) : Option Nat :=" % name,
                  "  match Utils.parseU64 str with",
                  "  | none => none",
                  "  | some value => if value > 2 ^ %d - 1 then none else some (value %% 2 ^ %d %% 2 ^ %d)" % (lim, cast, res), ""]
    L += ["end Ftp.Generated", ""]
    return "\n".join(L)

def extract():
    """returns (facts, errors): every fact is extracted on its own; a fact whose pattern no longer matches is left out of the
    generated file (only the theorems that mention it then fail to build) and reported in `errors`"""
    f = {}; errors = {}
    def fact(names, fn):
        try:
            vals = fn()
            for n, v in zip(names, vals if isinstance(vals, tuple) else (vals,)):
                f[n] = v
        except (ExtractError, OSError, ValueError) as e:
            for n in names:
                errors[n] = str(e)
    def verbs():
        cp = src("app/cmdline/src/command_parser.cpp")
        body = body_of(cp, "get_command_from_string", "verb chain")
        chain = re.findall(r'if\s*\(\s*boost::iequals\s*\(\s*\w+\s*,\s*"([^"]*)"\s*\)\s*\)\s*\{\s*return\s+command::(\w+)\s*;\s*\}', body)
        n_if = len(re.findall(r"\bif\s*\(", body)); n_ret = len(re.findall(r"\breturn\s+command::", body))
        if not chain or len(chain) != n_if or len(chain) != n_ret:
            raise ExtractError("verb chain: %d recognised comparisons, %d if statements, %d returns of a command" % (len(chain), n_if, n_ret))
        return (chain,)
    fact(["verbs"], verbs)
    def thresholds():
        rp = src("src/reply.cpp")
        pos = one(r"code_\s*!=\s*unspecified\s*&&\s*code_\s*<\s*(\d+)\s*;", body_of(rp, "reply::is_positive", "is_positive"), "is_positive")
        neg = one(r"code_\s*!=\s*unspecified\s*&&\s*code_\s*>=\s*(\d+)\s*;", body_of(rp, "reply::is_negative", "is_negative"), "is_negative")
        inter = one(r"code_\s*!=\s*unspecified\s*&&\s*code_\s*>=\s*(\d+)\s*&&\s*code_\s*<\s*(\d+)\s*;", body_of(rp, "reply::is_intermediate", "is_intermediate"), "is_intermediate")
        return (int(pos), int(neg), int(inter[0]), int(inter[1]))
    fact(["positiveBelow", "negativeFrom", "intermediateFrom", "intermediateBelow"], thresholds)
    fact(["ctlMaxLine"], lambda: int(one(r"read_line\s*\(\s*buffer_\s*,\s*(\d+)\s*,", src("src/control_connection.cpp"), "control line limit")))
    fact(["sendBlock"], lambda: int(one(r"std::array\s*<\s*char\s*,\s*(\d+)\s*>", body_of(src("src/data_connection.cpp"), "data_connection::send(", "data_connection::send"), "send block")))
    fact(["recvBlock"], lambda: int(one(r"std::array\s*<\s*char\s*,\s*(\d+)\s*>", body_of(src("src/data_connection.cpp"), "data_connection::recv(", "data_connection::recv"), "recv block")))
    fact(["asciiInBuf"], lambda: int(one(r"ascii_istream\s*\([^)]*buf_size\s*=\s*(\d+)\s*\)", src("include/ftp/detail/ascii_istream.hpp"), "ascii_istream buffer")))
    fact(["asciiOutHint"], lambda: int(one(r"ascii_ostream\s*\([^)]*hint_size\s*=\s*(\d+)\s*\)", src("include/ftp/detail/ascii_ostream.hpp"), "ascii_ostream hint")))
    return f, errors

def render(f, errors):
    esc = lambda s: s.replace("\\", "\\\\").replace('"', '\\"')
    lines = ["/-", "  GENERATED by tools/gen_source_facts.py from the source tree on every run of a check - do not edit.",
             "  Tables and constants as they are written in the C++ source now.  A fact the translator could not read is absent.", "-/", "namespace Ftp.Generated", ""]
    if "verbs" in f:
        verbs = ",\n   ".join('("%s", "%s")' % (esc(v), esc(n)) for v, n in f["verbs"])
        lines += ["/-- `get_command_from_string`: (string compared with `boost::iequals`, enumerator returned), in source order -/",
                  "def verbChain : List (String × String) :=\n  [" + verbs + "]", ""]
    for k in ("positiveBelow", "negativeFrom", "intermediateFrom", "intermediateBelow", "ctlMaxLine", "sendBlock", "recvBlock", "asciiInBuf", "asciiOutHint"):
        if k in f:
            lines.append("def %s : Nat := %d" % (k, f[k]))
    for k in sorted(errors):
        lines.append("-- not extracted: %s (%s)" % (k, errors[k].replace("\n", " ")[:200]))
    lines += ["", "end Ftp.Generated", ""]
    return "\n".join(lines)

# which property theorems depend on which fact (for the error text of the audit)
USERS = {"verbs": ["C19"], "positiveBelow": ["C15"], "negativeFrom": ["C15"], "intermediateFrom": ["C15"], "intermediateBelow": ["C15"],
         "ctlMaxLine": ["C01", "C08"], "sendBlock": ["C04", "C12"], "recvBlock": ["C03", "C12"], "asciiInBuf": ["C05"], "asciiOutHint": ["C05"], "clientFacts": ["C10", "C02"], "utilsFacts": ["C08"]}

def generate():
    """returns (changed, facts, errors)"""
    f, errors = extract()
    text = render(f, errors)
    os.makedirs(os.path.dirname(OUT), exist_ok=True)
    old = open(OUT).read() if os.path.exists(OUT) else None
    if old != text:
        tmp = OUT + ".%d" % os.getpid()
        open(tmp, "w").write(text); os.replace(tmp, OUT)
    try:
        cf, cerr = client_facts(), None
    except (ExtractError, OSError, ValueError, IndexError) as e:
        cf, cerr = None, str(e)
        errors["clientFacts"] = cerr
    ctext = render_client(cf, cerr or "")
    cold = open(OUT_CLIENT).read() if os.path.exists(OUT_CLIENT) else None
    if cold != ctext:
        tmp = OUT_CLIENT + ".%d" % os.getpid()
        open(tmp, "w").write(ctext); os.replace(tmp, OUT_CLIENT)
    try:
        uf, uerr = utils_facts(), None
    except (ExtractError, OSError, ValueError, IndexError) as e:
        uf, uerr = None, str(e)
        errors["utilsFacts"] = uerr
    utext = render_utils(uf, uerr or "")
    uold = open(OUT_UTILS).read() if os.path.exists(OUT_UTILS) else None
    if uold != utext:
        tmp = OUT_UTILS + ".%d" % os.getpid()
        open(tmp, "w").write(utext); os.replace(tmp, OUT_UTILS)
    return old != text or cold != ctext or uold != utext, f, errors

def problems_for(pid, errors):
    return ["translator tools/gen_source_facts.py could not read `%s` from the source: %s" % (k, e) for k, e in sorted(errors.items()) if pid in USERS.get(k, [])]

if __name__ == "__main__":
    ch, f, errors = generate()
    print("SourceFacts.lean %s: %d verbs, %s" % ("rewritten" if ch else "unchanged", len(f.get("verbs", [])), {k: v for k, v in f.items() if k != "verbs"}))
    for k, e in errors.items():
        print("not extracted: %s: %s" % (k, e))
    sys.exit(1 if errors else 0)
