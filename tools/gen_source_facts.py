#!/usr/bin/env python3
"""Translator for the table-like parts of the code: regenerates lean/Ftp/Generated/SourceFacts.lean from /repo's current
working tree (VERIF_REPO).  The hand-written model states the same tables / constants; `Ftp/Props/*s.lean` prove them equal,
so a change of a table or constant in the source breaks a proof obligation of the property that depends on it.

Extracted (by regular expressions over the source text, after stripping comments):
  * app/cmdline/src/command_parser.cpp  - the chain `boost::iequals(str, "<verb>") ... return command::<name>;` in source order
  * src/reply.cpp                       - the thresholds of is_positive / is_negative / is_intermediate
  * src/control_connection.cpp          - the line-length limit passed to read_line
  * src/data_connection.cpp             - the sizes of the block buffers of recv and send
  * include/ftp/detail/ascii_*stream.hpp - default sizes of the converters' internal buffers
A construct the patterns do not recognise is an error (the check reports it as a broken tie), never a silent default.
"""
import os, re, sys

ROOT = os.path.dirname(os.path.dirname(os.path.abspath(__file__)))
REPO = os.environ.get("VERIF_REPO", "/repo")
OUT = os.path.join(ROOT, "lean", "Ftp", "Generated", "SourceFacts.lean")

class ExtractError(Exception):
    pass

def src(path):
    s = open(os.path.join(REPO, path), encoding="latin-1").read()
    s = re.sub(r"/\*.*?\*/", " ", s, flags=re.S)
    return re.sub(r"//[^\n]*", " ", s)

def one(pattern, text, what):
    m = re.findall(pattern, text, flags=re.S)
    if len(m) != 1:
        raise ExtractError("%s: expected exactly one match of %r, found %d" % (what, pattern, len(m)))
    return m[0]

def body_of(text, signature, what):
    i = text.find(signature)
    if i < 0:
        raise ExtractError("%s: %r not found" % (what, signature))
    j = text.index("{", i); depth = 0
    for k in range(j, len(text)):
        if text[k] == "{": depth += 1
        elif text[k] == "}":
            depth -= 1
            if depth == 0:
                return text[j:k + 1]
    raise ExtractError("%s: unbalanced braces" % what)

def extract():
    """returns (facts, errors): every fact is extracted on its own; a fact whose pattern no longer matches is left out of the
    generated file (only the theorems that mention it then fail to build) and reported in `errors`"""
    f = {}; errors = {}
    def fact(names, fn):
        try:
            vals = fn()
            for n, v in zip(names, vals if isinstance(vals, tuple) else (vals,)):
                f[n] = v
        except (ExtractError, OSError, ValueError) as e:
            for n in names:
                errors[n] = str(e)
    def verbs():
        cp = src("app/cmdline/src/command_parser.cpp")
        body = body_of(cp, "get_command_from_string", "verb chain")
        chain = re.findall(r'if\s*\(\s*boost::iequals\s*\(\s*\w+\s*,\s*"([^"]*)"\s*\)\s*\)\s*\{\s*return\s+command::(\w+)\s*;\s*\}', body)
        n_if = len(re.findall(r"\bif\s*\(", body)); n_ret = len(re.findall(r"\breturn\s+command::", body))
        if not chain or len(chain) != n_if or len(chain) != n_ret:
            raise ExtractError("verb chain: %d recognised comparisons, %d if statements, %d returns of a command" % (len(chain), n_if, n_ret))
        return (chain,)
    fact(["verbs"], verbs)
    def thresholds():
        rp = src("src/reply.cpp")
        pos = one(r"code_\s*!=\s*unspecified\s*&&\s*code_\s*<\s*(\d+)\s*;", body_of(rp, "reply::is_positive", "is_positive"), "is_positive")
        neg = one(r"code_\s*!=\s*unspecified\s*&&\s*code_\s*>=\s*(\d+)\s*;", body_of(rp, "reply::is_negative", "is_negative"), "is_negative")
        inter = one(r"code_\s*!=\s*unspecified\s*&&\s*code_\s*>=\s*(\d+)\s*&&\s*code_\s*<\s*(\d+)\s*;", body_of(rp, "reply::is_intermediate", "is_intermediate"), "is_intermediate")
        return (int(pos), int(neg), int(inter[0]), int(inter[1]))
    fact(["positiveBelow", "negativeFrom", "intermediateFrom", "intermediateBelow"], thresholds)
    fact(["ctlMaxLine"], lambda: int(one(r"read_line\s*\(\s*buffer_\s*,\s*(\d+)\s*,", src("src/control_connection.cpp"), "control line limit")))
    fact(["sendBlock"], lambda: int(one(r"std::array\s*<\s*char\s*,\s*(\d+)\s*>", body_of(src("src/data_connection.cpp"), "data_connection::send(", "data_connection::send"), "send block")))
    fact(["recvBlock"], lambda: int(one(r"std::array\s*<\s*char\s*,\s*(\d+)\s*>", body_of(src("src/data_connection.cpp"), "data_connection::recv(", "data_connection::recv"), "recv block")))
    fact(["asciiInBuf"], lambda: int(one(r"ascii_istream\s*\([^)]*buf_size\s*=\s*(\d+)\s*\)", src("include/ftp/detail/ascii_istream.hpp"), "ascii_istream buffer")))
    fact(["asciiOutHint"], lambda: int(one(r"ascii_ostream\s*\([^)]*hint_size\s*=\s*(\d+)\s*\)", src("include/ftp/detail/ascii_ostream.hpp"), "ascii_ostream hint")))
    return f, errors

def render(f, errors):
    esc = lambda s: s.replace("\\", "\\\\").replace('"', '\\"')
    lines = ["/-", "  GENERATED by tools/gen_source_facts.py from the source tree on every run of a check - do not edit.",
             "  Tables and constants as they are written in the C++ source now.  A fact the translator could not read is absent.", "-/", "namespace Ftp.Generated", ""]
    if "verbs" in f:
        verbs = ",\n   ".join('("%s", "%s")' % (esc(v), esc(n)) for v, n in f["verbs"])
        lines += ["/-- `get_command_from_string`: (string compared with `boost::iequals`, enumerator returned), in source order -/",
                  "def verbChain : List (String × String) :=\n  [" + verbs + "]", ""]
    for k in ("positiveBelow", "negativeFrom", "intermediateFrom", "intermediateBelow", "ctlMaxLine", "sendBlock", "recvBlock", "asciiInBuf", "asciiOutHint"):
        if k in f:
            lines.append("def %s : Nat := %d" % (k, f[k]))
    for k in sorted(errors):
        lines.append("-- not extracted: %s (%s)" % (k, errors[k].replace("\n", " ")[:200]))
    lines += ["", "end Ftp.Generated", ""]
    return "\n".join(lines)

# which property theorems depend on which fact (for the error text of the audit)
USERS = {"verbs": ["C19"], "positiveBelow": ["C15"], "negativeFrom": ["C15"], "intermediateFrom": ["C15"], "intermediateBelow": ["C15"],
         "ctlMaxLine": ["C01", "C08"], "sendBlock": ["C04", "C12"], "recvBlock": ["C03", "C12"], "asciiInBuf": ["C05"], "asciiOutHint": ["C05"]}

def generate():
    """returns (changed, facts, errors)"""
    f, errors = extract()
    text = render(f, errors)
    os.makedirs(os.path.dirname(OUT), exist_ok=True)
    old = open(OUT).read() if os.path.exists(OUT) else None
    if old != text:
        tmp = OUT + ".%d" % os.getpid()
        open(tmp, "w").write(text); os.replace(tmp, OUT)
    return old != text, f, errors

def problems_for(pid, errors):
    return ["translator tools/gen_source_facts.py could not read `%s` from the source: %s" % (k, e) for k, e in sorted(errors.items()) if pid in USERS.get(k, [])]

if __name__ == "__main__":
    ch, f, errors = generate()
    print("SourceFacts.lean %s: %d verbs, %s" % ("rewritten" if ch else "unchanged", len(f.get("verbs", [])), {k: v for k, v in f.items() if k != "verbs"}))
    for k, e in errors.items():
        print("not extracted: %s: %s" % (k, e))
    sys.exit(1 if errors else 0)
