#!/usr/bin/env python3
"""Entry point of every registered check.

    python3 tools/vcheck.py <Cxx> quick|thorough
    python3 tools/vcheck.py --setup
    python3 tools/vcheck.py --replay <replay.json>

One run = (1) audit of the property's Lean theorems, (2) rebuild of the harness from /repo's working tree,
(3) scenarios -> real code -> traces -> Lean driver (model comparison = correspondence, Holds predicate = monitor),
(4) verdict, evidence, replay.  See DESIGN.md sections 1 and 5.
"""
import os, sys, json, time, subprocess, hashlib, re, traceback, importlib
from concurrent.futures import ThreadPoolExecutor

ROOT = os.path.dirname(os.path.dirname(os.path.abspath(__file__)))
sys.path.insert(0, os.path.join(ROOT, "tools"))
import build as B
import audit as A
from rng import Rng

RUN = os.path.join(ROOT, "build", "run")
DEFAULT_SEED = 20260929

TRUSTED_BASE = [
    "Lean 4.33.0 kernel (thorough tier: re-checked with leanchecker); axioms allowed: propext, Classical.choice, Quot.sound; no native_decide / bv_decide / sorry / own axioms (audited on every run)",
    "hand-written Lean model (lean/Ftp/Model) of the anchored code and hand-written reference spec / Holds predicate (lean/Ftp/Spec)",
    "correspondence check = differential testing of the real code (rebuilt from /repo's working tree) against the compiled Lean model (ftpdriver); sampling plus the stated exhaustive scopes, not proof",
    "translator tools/gen_source_facts.py (regular expressions over the source text): tables / constants regenerated into lean/Ftp/Generated/SourceFacts.lean, the fourteen one-command member functions of ftp::client translated into model programs and the command literals / decisive reply codes of src/client.cpp regenerated into lean/Ftp/Generated/ClientFacts.lean, try_parse_uint8/16/32 of src/utils.cpp translated into lean/Ftp/Generated/UtilsFacts.lean, proved equal to the model's in Props/*s.lean",
    "harness, generators and canonicalisation (harness/*.cpp, tools/*.py); g++ 12, Boost.Asio 1.83, OpenSSL 3, libstdc++ behave as documented",
]

def log(*a):
    print(*a, file=sys.stderr, flush=True)

def load_known():
    p = os.path.join(ROOT, "known_findings.json")
    if not os.path.exists(p):
        return []
    return json.load(open(p)).get("findings", [])

def known_match(pid, cls, line, known):
    for k in known:
        if k.get("property") != pid or k.get("status") != "known":
            continue
        if k.get("class") != cls:
            continue
        if re.search(k.get("scenario_regex", "^$"), line):
            return k
    return None

def run_lines(exe, driver, path_in, workdir, idx, env=None, timeout=3000):
    """harness < path_in | driver ; returns list of (scenario_line_with_impl, verdict)"""
    impl_path = os.path.join(workdir, "impl.%d" % idx)
    ver_path = os.path.join(workdir, "ver.%d" % idx)
    e = dict(os.environ)
    if env:
        e.update(env)
    with open(path_in) as fi, open(impl_path, "w") as fo:
        r = subprocess.run([exe], stdin=fi, stdout=fo, stderr=subprocess.PIPE, timeout=timeout, env=e)
    crashed = None
    if r.returncode != 0:
        crashed = "harness exit %d: %s" % (r.returncode, r.stderr.decode("latin-1")[-2000:])
    with open(impl_path) as fi, open(ver_path, "w") as fo:
        subprocess.run([driver], stdin=fi, stdout=fo, check=True, timeout=timeout)
    impl = open(impl_path).read().split("\n")
    ver = open(ver_path).read().split("\n")
    if impl and impl[-1] == "":
        impl.pop()
    if ver and ver[-1] == "":
        ver.pop()
    return impl, ver, crashed

class Result:
    def __init__(self):
        self.evaluations = 0
        self.tags = {}
        self.ops = {}
        self.nontrivial = set()
        self.violations = []      # (stage, line, verdict, cls)
        self.known_hits = {}      # id -> (finding, line)
        self.corr = []            # (stage, line, verdict)
        self.internal = []        # strings
        self.samples = []
        self.sample_keys = {}
        self.stage_info = []
        self.exhaustive_scopes = []

def process(prop, stage, impl, ver, crashed, res, known, nlines):
    if crashed:
        # a crash of the harness (sanitizer abort, uncaught exception, signal) is a result: the last scenario
        # without an answer is the culprit
        res.violations.append((stage["name"], "harness-crash after %d/%d answered lines: %s" % (len(impl), nlines, crashed),
                               "CRASH", "harness-crash"))
    if len(impl) != len(ver):
        res.internal.append("driver answered %d lines for %d traces" % (len(ver), len(impl)))
    trivial = set(prop.get("trivial_tags", []))
    for line, v in zip(impl, ver):
        res.evaluations += 1
        op = line.split(" ", 1)[0]
        res.ops[op] = res.ops.get(op, 0) + 1
        if v.startswith("ok"):
            tags = v[3:].split(",") if len(v) > 3 else []
        elif v.startswith("CORR "):
            tags = v.split(" ")[1].split(",")
            res.corr.append((stage["name"], line, v))
        elif v.startswith("VIOL "):
            parts = v.split(" ")
            cls = parts[1]
            tags = parts[2].split(",") if len(parts) > 2 else []
            k = known_match(prop["id"], cls, line, known)
            if k:
                res.known_hits.setdefault(k["id"], (k, line))
            else:
                res.violations.append((stage["name"], line, v, cls))
        else:
            tags = []
            res.internal.append("driver said %r for %r" % (v, line[:300]))
        for t in tags:
            if t:
                res.tags[t] = res.tags.get(t, 0) + 1
        if any(t and t not in trivial for t in tags):
            res.nontrivial.add(hashlib.blake2b(line.split(" => ")[0].encode(), digest_size=8).digest())
        key = (op, tuple(tags[:2]))
        if len(res.samples) < 16 and res.sample_keys.get(key, 0) < 1:
            res.sample_keys[key] = res.sample_keys.get(key, 0) + 1
            res.samples.append(line[:700])

def run_stage(prop, stage, tier, rng, driver, res, known, extra_lines=None):
    t0 = time.time()
    try:
        exe = B.build(stage["target"], sanitize=stage.get("sanitize", False))
    except B.BuildError as e:
        res.internal.append("harness %s does not build against the current tree: %s" % (stage["target"], str(e)[-1500:]))
        res.stage_info.append({"stage": stage["name"], "built": False})
        return
    workdir = os.path.join(RUN, "%s-%s-%s-%d" % (prop["id"], tier, stage["name"], os.getpid()))
    os.makedirs(workdir, exist_ok=True)
    # auxiliary binaries built from the tree (e.g. the real cmdline client) are handed to the harness through the environment
    stage_env = dict(stage.get("env") or {})
    try:
        for var, tgt in (stage.get("aux_targets") or {}).items():
            stage_env[var] = B.build(tgt)
    except B.BuildError as e:
        res.internal.append("auxiliary target does not build against the current tree: %s" % str(e)[-1500:])
        return
    stage_env["VERIF_SCRATCH"] = workdir
    ctx = {"tier": tier, "rng": rng.fork(stage["name"]), "root": ROOT, "scopes": res.exhaustive_scopes, "exe": exe,
           "workdir": workdir}
    if extra_lines is not None:
        lines = extra_lines
    else:
        lines = []
        cdir = os.path.join(ROOT, "corpus", prop["id"])
        if os.path.isdir(cdir):
            for f in sorted(os.listdir(cdir)):
                if f.endswith(".scn") and (f.startswith(stage["name"] + ".") or f.startswith("all.")):
                    lines += [l for l in open(os.path.join(cdir, f)).read().split("\n") if l and not l.startswith("#")]
        lines += list(stage["gen"](ctx))
    nshards = max(1, min(16, len(lines) // stage.get("shard", 2000) + 1)) if stage.get("parallel", True) else 1
    shards = [[] for _ in range(nshards)]
    for i, l in enumerate(lines):
        shards[i % nshards].append(l)
    paths = []
    for i, sh in enumerate(shards):
        p = os.path.join(workdir, "scn.%d" % i)
        with open(p, "w") as f:
            f.write("\n".join(sh) + ("\n" if sh else ""))
        paths.append(p)
    with ThreadPoolExecutor(max_workers=nshards) as ex:
        outs = list(ex.map(lambda ip: run_lines(exe, driver, ip[1], workdir, ip[0], env=stage_env), enumerate(paths)))
    for (impl, ver, crashed), sh in zip(outs, shards):
        process(prop, stage, impl, ver, crashed, res, known, len(sh))
    res.stage_info.append({"stage": stage["name"], "harness": stage["target"], "sanitize": stage.get("sanitize", False),
                           "scenarios": len(lines), "wall_s": round(time.time() - t0, 2), "built": True})
    if not os.environ.get("VERIF_KEEP"):
        import shutil
        shutil.rmtree(workdir, ignore_errors=True)

def shrink(prop, stage, line, cls, tier, rng, driver, known, budget=40):
    """greedy minimisation of a failing scenario: drop API calls (client / e2e lines) or input lines (app lines) one at a
    time, from the end, as long as the same class of violation is still reported; returns the reduced line with the
    implementation's output, or None when nothing could be removed"""
    head = line.split(" => ")[0]
    parts = head.split(" ")
    if parts[0] in ("client", "e2e") and len(parts) > 3:
        fixed, items, join = parts[:2], parts[2:], (lambda its: " ".join(fixed + its))
    elif parts[0] == "app" and len(parts) == 4 and "," in parts[3]:
        fixed, items, join = parts[:3], parts[3].split(","), (lambda its: " ".join(fixed + [",".join(its)]))
    else:
        return None
    def fails(its):
        r2 = Result()
        try:
            run_stage(prop, stage, tier, rng, driver, r2, known, extra_lines=[join(its)])
        except Exception:
            return None
        hit = [v for v in r2.violations if v[3] == cls]
        return hit[0][1] if hit else None
    best = None
    i = len(items) - 1
    t0 = time.time()
    while i >= 0 and budget > 0 and len(items) > 1 and time.time() - t0 < 45:
        cand = items[:i] + items[i + 1:]
        budget -= 1
        got = fails(cand)
        if got:
            items, best = cand, got
        i -= 1
    return best

def write_replay(pid, tier, seed, kind, payload):
    d = os.path.join(ROOT, "replays", pid)
    os.makedirs(d, exist_ok=True)
    p = os.path.join(d, "%s-%s-%d-%d.json" % (kind, tier, seed, int(time.time())))
    payload = dict(payload)
    payload.update({"property": pid, "tier": tier, "seed": seed, "kind": kind})
    json.dump(payload, open(p, "w"), indent=1)
    return p

def get_prop(pid):
    mod = importlib.import_module("props." + pid.lower())
    return mod.PROP

def check(pid, tier):
    t0 = time.time()
    os.makedirs(RUN, exist_ok=True)
    seed = int(os.environ.get("VERIF_SEED", DEFAULT_SEED))
    tier = os.environ.get("VERIF_TIER", tier)
    if tier not in ("quick", "thorough"):
        tier = "quick"
    prop = get_prop(pid)
    rng = Rng(seed).fork(pid)
    known = load_known()
    res = Result()
    exit_code = 0
    # 1. proofs
    try:
        au = A.audit(pid, thorough=(tier == "thorough"))
    except Exception as e:
        au = {"ok": False, "obligations": 1, "discharged": 0, "theorems": {}, "problems": ["audit crashed: %r" % e], "checker_cmd": ""}
    # 2./3. correspondence + monitor
    driver = None
    try:
        driver = A.build_driver()
    except Exception as e:
        res.internal.append("ftpdriver does not build: %s" % str(e)[-1500:])
    if driver:
        for stage in prop["stages"]:
            if tier == "quick" and stage.get("thorough_only"):
                continue
            try:
                run_stage(prop, stage, tier, rng, driver, res, known)
            except Exception as e:
                res.internal.append("stage %s failed: %s" % (stage["name"], traceback.format_exc()[-1500:]))
    # 3b. stages that exist for the search: when a proof obligation, the correspondence or the machinery is broken and no
    #     failing input has been found yet, the stages marked `fallback` run in the quick tier too (bounded by their generator)
    if driver and tier == "quick" and not res.violations and (res.corr or not au["ok"] or res.internal):
        for stage in prop["stages"]:
            if stage.get("fallback") and stage.get("thorough_only"):
                try:
                    run_stage(prop, stage, tier, rng, driver, res, known)
                except Exception as e:
                    res.internal.append("stage %s failed: %s" % (stage["name"], traceback.format_exc()[-1500:]))
    # 4. neighbourhood search when only the correspondence / a proof is broken
    searched = 0
    if driver and not res.violations and (res.corr or not au["ok"] or res.internal):
        for stage in prop["stages"]:
            if "neighbourhood" in stage and res.corr:
                first = [c for c in res.corr if c[0] == stage["name"]][:3]
                extra = []
                for c in first:
                    extra += list(stage["neighbourhood"](c[1].split(" => ")[0], rng.fork("nb")))
                if extra:
                    searched += len(extra)
                    r2 = Result()
                    run_stage(prop, stage, tier, rng, driver, r2, known, extra_lines=extra)
                    res.violations += r2.violations
                    res.evaluations += r2.evaluations
    # 5. verdict
    for kid, (k, line) in sorted(res.known_hits.items()):
        print("KNOWN-FINDING: property=%s %s [%s] e.g. %s" % (pid, k["what"], kid, line[:200]))
    if res.violations:
        exit_code = 1
        byc = {}
        for v in res.violations:
            byc.setdefault(v[3], []).append(v)
        shown = []
        for cls, vs in byc.items():
            vs = sorted(vs, key=lambda v: len(v[1]))
            entry = {"class": cls, "count": len(vs), "stage": vs[0][0], "scenario": vs[0][1], "verdict": vs[0][2],
                     "more": [v[1] for v in vs[1:4]]}
            # a minimal history for the first classes (bounded effort; the original scenario stays in the replay as well)
            if driver and len(shown) < 3 and not os.environ.get("VERIF_NO_SHRINK"):
                st = [x for x in prop["stages"] if x["name"] == vs[0][0]]
                if st:
                    try:
                        small = shrink(prop, st[0], vs[0][1], cls, tier, rng.fork("shrink"), driver, known)
                    except Exception:
                        small = None
                    if small:
                        entry["minimized"] = small
            shown.append(entry)
        p = write_replay(pid, tier, seed, "violation", {"failures": shown,
            "how_to_replay": "python3 tools/vcheck.py --replay <this file>"})
        print("VIOLATION property=%s replay=%s" % (pid, p))
    elif res.corr or not au["ok"] or res.internal:
        exit_code = 1
        broken = []
        if not au["ok"]:
            broken.append({"what": "theorem(s) of Ftp.Props.%s no longer check" % pid, "problems": au["problems"]})
        if res.corr:
            broken.append({"what": "correspondence model<->implementation (%d scenarios differ)" % len(res.corr),
                           "first": [{"stage": c[0], "scenario": c[1], "driver": c[2]} for c in res.corr[:5]]})
        if res.internal:
            broken.append({"what": "machinery could not run", "problems": res.internal[:5]})
        p = write_replay(pid, tier, seed, "unproven", {"no_longer_checks": broken, "neighbourhood_scenarios_searched": searched,
            "note": "no input was found on which the property itself fails; the property is no longer shown to hold"})
        print("VIOLATION property=%s replay=%s no-failing-input-found" % (pid, p))
    # 6. evidence
    wall = time.time() - t0
    cov = {
        "obligations": au["obligations"], "discharged": au["discharged"],
        "checker_cmd": au.get("checker_cmd", ""),
        "trusted_base": TRUSTED_BASE + prop.get("trusted_extra", []),
        "theorems": au.get("theorems", {}), "nonvacuity_examples": au.get("examples", 0),
        "proof_problems": au.get("problems", []),
        "evaluations": res.evaluations, "distinct_nontrivial": len(res.nontrivial),
        "rule": prop.get("rule", ""), "samples": res.samples,
        "traces_validated_against_impl": res.evaluations,
        "exhaustive": bool(res.exhaustive_scopes), "exhaustive_scope": res.exhaustive_scopes,
        "distribution": {"ops": res.ops, "tags": res.tags},
        "stages": res.stage_info,
        "correspondence_mismatches": len(res.corr),
        "known_findings_reproduced": sorted(res.known_hits.keys()),
        "repo_tree_hash": B.repo_tree_hash(),
    }
    ev = {"property_id": pid, "tier": tier, "seed": seed, "level": "proof", "coverage": cov,
          "assumptions": prop.get("assumptions", []), "wall_s": round(wall, 2),
          "violations": len(res.violations) + (1 if exit_code and not res.violations else 0)}
    # evidence of a run against another tree than /repo (VERIF_REPO: seeded changes in scratch worktrees) is kept apart, so that
    # evidence/ always describes /repo
    evdir = os.path.join(ROOT, "evidence") if B.REPO == "/repo" else os.path.join(ROOT, "build", "evidence-other-tree")
    os.makedirs(evdir, exist_ok=True)
    json.dump(ev, open(os.path.join(evdir, pid + ".json"), "w"), indent=1)
    log("%s %s: %d scenarios, %d non-trivial distinct, %d/%d obligations, %d violations, %d corr, %.1fs"
        % (pid, tier, res.evaluations, len(res.nontrivial), au["discharged"], au["obligations"], len(res.violations), len(res.corr), wall))
    return exit_code

def replay(path):
    rp = json.load(open(path))
    pid = rp["property"]
    prop = get_prop(pid)
    driver = A.build_driver()
    known = load_known()
    rc = 0
    items = rp.get("failures", []) + [f for b in rp.get("no_longer_checks", []) for f in b.get("first", [])]
    for f in items:
        stage = [s for s in prop["stages"] if s["name"] == f["stage"]][0]
        lines = [f["scenario"].split(" => ")[0]] + [m.split(" => ")[0] for m in f.get("more", [])]
        if f.get("minimized"):
            lines.insert(0, f["minimized"].split(" => ")[0])
        res = Result()
        run_stage(prop, stage, rp.get("tier", "quick"), Rng(rp.get("seed", 0)), driver, res, known, extra_lines=lines)
        for v in res.violations:
            print("REPRODUCED %s: %s -> %s" % (v[3], v[1], v[2])); rc = 1
        for c in res.corr:
            print("CORRESPONDENCE-DIFFERS: %s -> %s" % (c[1], c[2])); rc = 1
        for i in res.internal:
            print("INTERNAL: %s" % i); rc = 1
    for b in rp.get("no_longer_checks", []):
        if "theorem" in b.get("what", ""):
            au = A.audit(pid)
            if not au["ok"]:
                print("PROOF-BROKEN: %s" % au["problems"]); rc = 1
    if rc == 0:
        print("not reproduced")
    else:
        print("VIOLATION property=%s replay=%s" % (pid, path))
    return rc

def setup():
    t0 = time.time()
    os.makedirs(RUN, exist_ok=True)
    r = A.lake(["build"])
    sys.stderr.write(r.stdout[-2000:] + r.stderr[-2000:])
    if r.returncode != 0:
        return 1
    man = json.load(open(os.path.join(ROOT, "MANIFEST.json")))
    targets = set()
    for c in man["checks"]:
        try:
            prop = get_prop(c["property_id"])
        except Exception as e:
            log("cannot load", c["property_id"], e); continue
        for s in prop["stages"]:
            targets.add((s["target"], s.get("sanitize", False)))
    for t, san in sorted(targets):
        try:
            B.build(t, sanitize=san)
        except B.BuildError as e:
            log(str(e)); return 1
    log("setup done in %.1fs" % (time.time() - t0))
    return 0

if __name__ == "__main__":
    if len(sys.argv) >= 2 and sys.argv[1] == "--setup":
        sys.exit(setup())
    if len(sys.argv) >= 3 and sys.argv[1] == "--replay":
        sys.exit(replay(sys.argv[2]))
    if len(sys.argv) != 3:
        print(__doc__); sys.exit(2)
    sys.exit(check(sys.argv[1], sys.argv[2]))
