#!/bin/bash
# Mutation regression: every change kept under seeded/ (and every reverse patch of a fix: commit) must still be reported by
# the check of the property it breaks - with a concrete failing input.  Works on a scratch worktree of /repo (VERIF_REPO),
# never on /repo itself.   usage: tools/seed_all.sh [quick|thorough]
TIER=${1:-quick}
cd "$(dirname "$0")/.." || exit 2
WT=$(mktemp -d /tmp/seedall.XXXXXX); rmdir $WT
git -C /repo worktree add -q --detach $WT HEAD || exit 2
trap 'git -C /repo worktree remove --force $WT; git -C /repo worktree prune; rm -f $LOG' EXIT
fail=0
LOG=$(mktemp /tmp/seedall_log.XXXXXX)
run() { # <patch> <property> <label>
  ( cd $WT && git apply "$1" ) || { echo "$3: patch does not apply"; fail=1; return; }
  out=$(VERIF_REPO=$WT timeout 3000 python3 tools/vcheck.py $2 $TIER 2>&1); rc=$?
  v=$(echo "$out" | grep -E '^VIOLATION' | head -1)
  if [ $rc -eq 1 ] && [ -n "$v" ] && ! echo "$v" | grep -q no-failing-input-found; then echo "caught  $3 by $2" | tee -a $LOG; else echo "MISSED  $3 by $2 (exit=$rc) $v" | tee -a $LOG; fail=1; fi
  ( cd $WT && git checkout -q -- . )
}
for d in seeded/C*/; do
  # SEED_FILTER=<regex>: only the changes whose directory name matches (a partial regression)
  if [ -n "$SEED_FILTER" ] && ! echo "$d" | grep -Eq "$SEED_FILTER"; then continue; fi
  # changes recorded as not caught (see their meta.json and DESIGN.md 0.3) are listed, not run
  if python3 -c "import json,sys; sys.exit(0 if json.load(open('$d/meta.json')).get('not_caught') else 1)"; then echo "recorded-as-not-caught  $(basename $d)" | tee -a $LOG; continue; fi
  p=$(python3 -c "import json,sys; print(json.load(open('$d/meta.json'))['breaks_property'])")
  run "$PWD/$d/patch.diff" $p "$(basename $d)"
done
python3 - <<'PY' > /tmp/seedall_reverts.$$
import json,re
m=json.load(open('seeded/reverts/meta.json'))['results']
for k,v in m.items(): print(k, re.match(r'(C\d\d)',v).group(1))
PY
while read f p; do if [ -n "$SEED_FILTER" ] && ! echo "revert_$f-$p" | grep -Eq "$SEED_FILTER"; then continue; fi; run "$PWD/seeded/reverts/revert_$f.diff" $p "revert_$f"; done < /tmp/seedall_reverts.$$
rm -f /tmp/seedall_reverts.$$
# the unchanged worktree must be clean for every registered check (a monitor or token added for a seed must not raise
# an alarm on the original code)
for id in $(python3 -c "import json; print(' '.join(c['property_id'] for c in json.load(open('MANIFEST.json'))['checks']))"); do
  out=$(VERIF_REPO=$WT python3 tools/vcheck.py $id $TIER 2>&1); rc=$?
  if [ $rc -ne 0 ]; then echo "MISSED  unchanged-tree-alarm by $id (exit=$rc) $(echo "$out" | grep VIOLATION | head -1)" | tee -a $LOG; fail=1; else echo "clean   unchanged tree, $id" ; fi
done
echo "$(date -u +%FT%TZ) tier=$TIER${SEED_FILTER:+ filter=$SEED_FILTER}: $(grep -c "^caught" $LOG) caught, $(grep -c "^MISSED" $LOG) missed, $(grep -c "^recorded-as-not-caught" $LOG) recorded as not caught" > seeded/REGRESSION.txt; grep "^MISSED" $LOG >> seeded/REGRESSION.txt; exit $fail
