#!/usr/bin/env python3
"""Build libftp's sources and the harness executables from /repo's *current working tree*.

Objects are cached per translation unit under /verif/build/obj, keyed by a hash of the source file, of every
header under /repo/include and /repo/app/cmdline/src (and /verif/harness for harness units) and of the flags,
so an unchanged tree is a cache hit and any edit rebuilds exactly what depends on it.
"""
import hashlib, os, subprocess, sys, glob, fcntl, time, json
from concurrent.futures import ThreadPoolExecutor

ROOT = os.path.dirname(os.path.dirname(os.path.abspath(__file__)))
REPO = os.environ.get("VERIF_REPO", "/repo")
BUILD = os.path.join(ROOT, "build")
OBJ = os.path.join(BUILD, "obj")
BIN = os.path.join(BUILD, "bin")
CXX = "g++"
BASE_FLAGS = ["-std=c++17", "-O1", "-g0", "-DNDEBUG", "-DLIBFTP_FTP_EXPORT_INTERNAL", "-pthread",
              "-I" + os.path.join(REPO, "include")]
SAN_FLAGS = ["-fsanitize=address,undefined", "-fno-sanitize-recover=all", "-fno-omit-frame-pointer"]
HARNESS_FLAGS = ["-fno-access-control", "-I" + os.path.join(REPO, "app/cmdline/src"), "-I" + os.path.join(ROOT, "harness")]
LIBS = ["-lssl", "-lcrypto", "-lboost_filesystem", "-ldl", "-pthread"]

class BuildError(Exception):
    pass

def sha(*parts):
    h = hashlib.sha256()
    for p in parts:
        h.update(p if isinstance(p, bytes) else p.encode())
        h.update(b"\0")
    return h.hexdigest()[:24]

def file_hash(path):
    with open(path, "rb") as f:
        return hashlib.sha256(f.read()).hexdigest()

def tree_hash(dirs, exts):
    items = []
    for d in dirs:
        for r, _, fs in os.walk(d):
            for f in sorted(fs):
                if f.endswith(exts):
                    p = os.path.join(r, f)
                    items.append(os.path.relpath(p, d) + ":" + file_hash(p))
    return sha(*sorted(items))

def lib_sources():
    return sorted(glob.glob(os.path.join(REPO, "src", "*.cpp")))

def app_sources(with_main=False):
    s = sorted(glob.glob(os.path.join(REPO, "app/cmdline/src", "*.cpp")))
    return s if with_main else [x for x in s if not x.endswith("/main.cpp")]

def repo_tree_hash():
    return tree_hash([os.path.join(REPO, "include"), os.path.join(REPO, "src"), os.path.join(REPO, "app/cmdline/src")],
                     (".hpp", ".h", ".cpp"))

def compile_unit(src, flags, hdr_key):
    key = sha(file_hash(src), hdr_key, " ".join(flags), os.path.basename(src))
    obj = os.path.join(OBJ, key + ".o")
    if os.path.exists(obj):
        os.utime(obj, None)
        return obj, False, ""
    tmp = obj + ".tmp%d" % os.getpid()
    r = subprocess.run([CXX] + flags + ["-c", src, "-o", tmp], capture_output=True, text=True)
    if r.returncode != 0:
        raise BuildError("compile failed: %s\n%s" % (src, r.stderr[-4000:]))
    os.replace(tmp, obj)
    return obj, True, r.stderr

def gc_cache(max_files=600):
    files = sorted(glob.glob(os.path.join(OBJ, "*.o")) + glob.glob(os.path.join(BIN, "*")), key=os.path.getmtime)
    for f in files[:-max_files] if len(files) > max_files else []:
        try: os.remove(f)
        except OSError: pass

def build(target, sanitize=False, jobs=16):
    """target: one of h_pure, h_ctl, h_client, h_e2e, cmdline. Returns path of the executable."""
    os.makedirs(OBJ, exist_ok=True); os.makedirs(BIN, exist_ok=True)
    lock = open(os.path.join(BUILD, ".lock"), "w")
    fcntl.flock(lock, fcntl.LOCK_EX)
    try:
        hdr_repo = tree_hash([os.path.join(REPO, "include"), os.path.join(REPO, "app/cmdline/src")], (".hpp", ".h"))
        hdr_harness = tree_hash([os.path.join(ROOT, "harness")], (".hpp", ".h"))
        flags = BASE_FLAGS + (SAN_FLAGS if sanitize else [])
        units = []
        for s in lib_sources():
            units.append((s, flags, hdr_repo))
        hflags = flags + HARNESS_FLAGS
        if target == "cmdline":
            for s in app_sources(with_main=True):
                units.append((s, flags + ["-I" + os.path.join(REPO, "app/cmdline/src")], hdr_repo))
        else:
            if target in ("h_pure",):
                for s in app_sources():
                    units.append((s, flags + ["-I" + os.path.join(REPO, "app/cmdline/src")], hdr_repo))
            hsrc = [os.path.join(ROOT, "harness", target + ".cpp")]
            extra = {"h_client": ["interpose.cpp"], "h_e2e": ["interpose.cpp"], "h_ctl": ["interpose.cpp"], "h_app": ["interpose.cpp"]}.get(target, [])
            for e in extra:
                hsrc.append(os.path.join(ROOT, "harness", e))
            for s in hsrc:
                units.append((s, hflags, sha(hdr_repo, hdr_harness)))
        with ThreadPoolExecutor(max_workers=jobs) as ex:
            res = list(ex.map(lambda u: compile_unit(*u), units))
        objs = [r[0] for r in res]
        exe = os.path.join(BIN, "%s-%s" % (target, sha(*objs, "san" if sanitize else "")))
        if not os.path.exists(exe):
            tmp = exe + ".tmp%d" % os.getpid()
            r = subprocess.run([CXX] + (SAN_FLAGS if sanitize else []) + objs + ["-o", tmp] + LIBS, capture_output=True, text=True)
            if r.returncode != 0:
                raise BuildError("link failed: %s\n%s" % (target, r.stderr[-4000:]))
            os.replace(tmp, exe)
        else:
            os.utime(exe, None)
        gc_cache()
        return exe
    finally:
        fcntl.flock(lock, fcntl.LOCK_UN)
        lock.close()

if __name__ == "__main__":
    t0 = time.time()
    try:
        for t in sys.argv[1:]:
            san = t.endswith("+san")
            print(build(t.replace("+san", ""), sanitize=san))
    except BuildError as e:
        print(str(e), file=sys.stderr)
        sys.exit(2)
    print("built in %.1fs" % (time.time() - t0), file=sys.stderr)
